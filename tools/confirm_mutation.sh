#!/bin/bash
# usage: tools/confirm_mutation.sh <worktree> <N>
# Independently confirms a seeded change delivered in <worktree>/MUTATION_<N>:
#   1. the patch applies to the (clean) scratch worktree and the full existing suite passes with it,
#   2. the demonstration FAILS with the patch,   3. and PASSES without it.
# Prints one CONFIRM line; exit 0 iff all three hold. Never touches /repo.
set -u
wt="$1"; n="$2"; md="$wt/MUTATION_$n"
cd "$wt" || exit 2
git checkout -q -- . 2>/dev/null
demo_file=$(python3 -c "import json;print(json.load(open('$md/meta.json'))['demo_file'])")
demo_cmd=$(python3 -c "import json;print(json.load(open('$md/meta.json'))['demo_cmd'])")
demo_src=$(ls "$md"/*.rs | head -1)
mkdir -p "$(dirname "$wt/$demo_file")"
git apply "$md/patch.diff" || { echo "CONFIRM $md FAIL patch-does-not-apply"; exit 1; }
tests=$(cargo test --workspace --no-fail-fast --offline 2>&1 | grep -E "^test result" | awk '{p+=$4; f+=$6} END {print p"/"f}')
cp "$demo_src" "$wt/$demo_file"
timeout 1500 bash -c "$demo_cmd" > "$md/confirm_with_patch.txt" 2>&1; rc_with=$?
git checkout -q -- .
timeout 1500 bash -c "$demo_cmd" > "$md/confirm_without_patch.txt" 2>&1; rc_without=$?
rm -f "$wt/$demo_file"
ok=1
[ "$tests" = "610/0" ] || ok=0
[ $rc_with -ne 0 ] || ok=0
[ $rc_without -eq 0 ] || ok=0
echo "CONFIRM $md tests_with_patch=$tests demo_rc_with_patch=$rc_with demo_rc_without_patch=$rc_without => $([ $ok = 1 ] && echo CONFIRMED || echo REJECTED)"
[ $ok = 1 ]
