#!/bin/bash
# usage: tools/run_all.sh <tier> <seed> [props...]  — runs the checks one after another, prints one line each
tier="${1:-quick}"; seed="${2:-1}"; shift 2
props="$@"; [ -z "$props" ] && props="C01 C02 C03 C04 C05 C06 C07 C08 C09 C10 C11 C12 C13 C14 C15 C16 C17 C18 C19 C20"
cd /verif
for p in $props; do
  s=$(date +%s)
  out=$(VERIF_SEED=$seed ./check $p $tier 2>/dev/null); rc=$?
  e=$(( $(date +%s) - s ))
  echo "$p seed=$seed rc=$rc ${e}s | $(echo "$out" | grep -E "^\[$p" | cut -c1-150) $(echo "$out" | grep -cE "^VIOLATION") viol, $(echo "$out" | grep -cE "^KNOWN-FINDING") known $(echo "$out" | grep -E "HARNESS-ERROR" | head -1)"
done
