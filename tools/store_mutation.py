#!/usr/bin/env python3
"""usage: store_mutation.py <worktree> <N> <confirm-line>  -> /verif/seeded/<id>-<N>/ {patch.diff, demo, meta.json}"""
import json, os, shutil, sys, glob
wt, n, confirm = sys.argv[1], sys.argv[2], sys.argv[3]
md = f"{wt}/MUTATION_{n}"
meta = json.load(open(f"{md}/meta.json"))
pid = meta.get("property") or os.path.basename(wt)
dst = f"/verif/seeded/{pid}-{n}"
os.makedirs(dst, exist_ok=True)
shutil.copy(f"{md}/patch.diff", f"{dst}/patch.diff")
for f in glob.glob(f"{md}/*.rs"):
    shutil.copy(f, dst)
out = {
    "property": pid,
    "breaks": meta.get("summary"),
    "needs_to_manifest": meta.get("needs"),
    "demo_file": meta.get("demo_file"),
    "demo_cmd": meta.get("demo_cmd", "").replace(wt, "<worktree>"),
    "author": "independent sub-agent given only the property text and a scratch worktree",
    "confirmed_by_me": {
        "how": "tools/confirm_mutation.sh in the scratch worktree: patch applied -> full existing suite; demo with patch; patch reverted -> demo again",
        "result": confirm,
    },
    "detected_by": None,
}
json.dump(out, open(f"{dst}/meta.json", "w"), indent=1)
print("stored", dst)
