#!/bin/bash
# usage: tools/with_revert.sh "<commit subject grep>" <command...>
# Temporarily reverse-applies the /repo commit whose subject matches, runs the command, restores /repo.
# Development aid for showing that a monitor re-finds a repaired defect. Never used by registered checks.
set -u
pat="$1"; shift
c=$(git -C /repo log --format=%h --grep="$pat" -1)
[ -z "$c" ] && { echo "no commit matches"; exit 2; }
if [ -n "$(git -C /repo status --porcelain --untracked-files=no)" ]; then echo "/repo dirty"; exit 2; fi
git -C /repo show "$c" | git -C /repo apply -R || exit 2
"$@"; rc=$?
git -C /repo checkout -- .
exit $rc
