#!/usr/bin/env python3
"""Apply every kept seeded change in turn, run the quick check of its property (and a few related
checks), undo it, and record in /verif/seeded/<id>/meta.json which checks caught it.

Development aid; not a registered check. It works in a scratch universe so that /repo and /verif stay
usable meanwhile:  <root>/repo = git worktree of /repo HEAD,  <root>/verif = copy of /verif whose path
dependencies point to <root>/repo.  usage: mutation_matrix.py [ids...]   (env MM_ROOT, default /tmp/mm;
MM_KEEP=1 reuses an existing scratch universe)"""
import glob, json, os, subprocess, sys, time

ROOT = os.environ.get("MM_ROOT", "/tmp/mm")
V = f"{ROOT}/verif"
R = f"{ROOT}/repo"
EXTRA = {"C08-2": ["C11"], "C08-1": ["C12"], "C12-1": ["C08"], "C01-1": ["C03", "C05"], "C01-2": ["C05"], "C03-1": ["C01"],
         "C05-1": ["C01"], "C05-2": ["C01"], "C04-1": ["C18", "C02"], "C04-2": ["C18"], "C02-1": ["C18", "C04"],
         "C18-1": ["C04"], "C18-2": ["C04"], "C11-1": ["C08"], "C11-2": ["C08"], "C01-3": ["C05", "C02", "C06"], "C07-5": ["C13"], "C10-6": ["C15"], "C02-6": ["C01"], "C03-6": ["C01"], "C05-5": ["C01"], "C02-8": ["C18"], "C06-8": ["C01"], "C04-8": ["C18"]}


def setup():
    if os.environ.get("MM_KEEP") and os.path.isdir(V) and os.path.isdir(R):
        subprocess.run(["git", "-C", R, "checkout", "--", "."])
        subprocess.run(["rsync", "-a", "--exclude", ".build", "--exclude", "replays", "--exclude", ".git", "--exclude", "evidence", "/verif/", V + "/"], check=True)
    else:
        subprocess.run(["git", "-C", "/repo", "worktree", "remove", "--force", R], capture_output=True)
        subprocess.run(["rm", "-rf", ROOT])
        os.makedirs(ROOT)
        subprocess.run(["git", "-C", "/repo", "worktree", "add", "-q", "--detach", R, "HEAD"], check=True)
        subprocess.run(["cp", "/repo/Cargo.lock", R])
        subprocess.run(["rsync", "-a", "--exclude", ".build", "--exclude", "replays", "--exclude", ".git", "/verif/", V + "/"], check=True)
    for f in ["harness/Cargo.toml", "harness-old/Cargo.toml", "miri/Cargo.toml", "check"]:
        p = f"{V}/{f}"
        if os.path.exists(p):
            t = open(p).read().replace('"/repo/', f'"{R}/').replace('REPO = "/repo"', f'REPO = "{R}"')
            open(p, "w").write(t)


def main():
    only = sys.argv[1:]
    setup()
    for d in sorted(glob.glob("/verif/seeded/*/")):
        sid = os.path.basename(d.rstrip("/"))
        if only and sid not in only:
            continue
        prop = sid.split("-")[0]
        meta = json.load(open(f"{d}/meta.json"))
        if subprocess.run(["git", "-C", R, "status", "--porcelain", "--untracked-files=no"], capture_output=True, text=True).stdout.strip():
            print("scratch repo dirty, abort")
            return 2
        if subprocess.run(["git", "-C", R, "apply", f"{d}/patch.diff"]).returncode != 0:
            print(sid, "patch does not apply")
            continue
        det = {}
        try:
            for p in [prop] + EXTRA.get(sid, []):
                t0 = time.time()
                r = subprocess.run(["./check", p, "quick"], cwd=V, capture_output=True, text=True)
                keys = sorted({l.split("key=")[1].split(" ")[0] for l in r.stdout.splitlines() if l.strip().startswith("key=")})
                det[p] = {"exit": r.returncode, "violation_keys": keys[:6], "wall_s": round(time.time() - t0, 1)}
        finally:
            subprocess.run(["git", "-C", R, "checkout", "--", "."])
        meta["detected_by"] = det
        meta["detected"] = det[prop]["exit"] == 1
        json.dump(meta, open(f"{d}/meta.json", "w"), indent=1)
        print(sid, {p: (v["exit"], v["violation_keys"][:2]) for p, v in det.items()}, flush=True)
    print("done")
    return 0


if __name__ == "__main__":
    sys.exit(main())
