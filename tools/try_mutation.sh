#!/bin/bash
# usage: tools/try_mutation.sh <patch.diff> <check args...>   e.g. tools/try_mutation.sh /tmp/wt/C09/MUTATION_1/patch.diff C09 quick
# Applies a seeded change to /repo, runs ./check, undoes it straight afterwards.
set -u
patch="$1"; shift
if [ -n "$(git -C /repo status --porcelain --untracked-files=no)" ]; then echo "/repo dirty"; exit 2; fi
git -C /repo apply "$patch" || { echo "patch does not apply"; exit 2; }
cd /verif && ./check "$@"; rc=$?
git -C /repo checkout -- .
echo "check exit code: $rc"
exit $rc
