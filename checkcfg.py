# Per-property configuration of the driver: budgets, coverage floors, the
# non-triviality rule quoted in the evidence, and the stated assumptions.

COMMON_ASSUME = [
    "verdict is 'held on the executions explored', not a proof: inputs, configurations and schedules are sampled",
    "reference models in /verif/harness/src/oracle are trusted (cross-checked by `vh selftest` before every run)",
    "num-bigint arithmetic (third party) is trusted as the base of the oracles",
]

PROPS = {
    "C07": {
        "budget_s": {"quick": 90, "thorough": 480},
        "floor": {"quick": 5000, "thorough": 5000},
        "rule": "planted chain complexes C_0 -> ... -> C_L (L = 1..4, dims 0..8 quick / 0..14, zero-dimensional corners) built as d_i = P_{i+1}^-1 E_i P_i with random unimodular P_i and planted diagonals mixing units and "
                "torsion from a per-ring palette (2,3,4,6,12,5,9, random and 64-200-bit elements, products) over BigInt, i64, i128, Ratio<i64|BigInt>, FF2, FF<3>, FF<5>, Gauss/Eisenstein over i64|BigInt, Poly<x,Q>, Poly<x,F3>; "
                "route 1 GenericChainComplex::generate(..).homology(): rank = n - r_in - r_out, torsion ~ non-unit invariant factors of d_in (own SNF), every generator is a cycle, vectorize(gen k) = e_k, boundaries have zero coordinates mod torsion; "
                "route 2 HomologyCalc::calculate on a middle pair: rank, torsion, d_out*B = 0, F*B = I, F*d_in = 0 mod torsion by oracle products; non-trivial = torsion present or both neighbouring ranks >= 1; distinct = hash of the differentials Route 1c: homology assembled by hand on c.reduced() through the public Summand::merge (generators are cycles of the original complex, standard coordinates); vectorize_euc of every boundary is exactly zero. Arbitrary cycles z = sum a_k gen(k) (+ a boundary; a_k zero, small, a multiple of the own order, the previous order, or a palette non-unit): free coordinates exact, every torsion coordinate congruent to a_k modulo its own order for vectorize and vectorize_euc, and exactly zero after reduction whenever the order divides a_k.",
        "assumptions": COMMON_ASSUME + ["machine-integer rings may overflow in SNF: inconclusive", "polynomial complexes over Q are kept <= 4-dimensional (coefficient growth)"],
        "technique": "reference-model monitor: planted complexes with homology known by construction; rank/torsion/generators/coordinate maps judged by the oracle's dense arithmetic and textbook SNF",
        "level_text": "Exploration: tens to hundreds of thousands of planted complexes over 14 Euclidean rings; the answer is known by construction and re-derived by an independent SNF, generators and coordinate maps are re-multiplied exactly. Right level: input property with an exact oracle.",
        "level_note": "Trusts the planted construction (d^2 = 0 is asserted by the generator) and the oracle SNF; sampled shapes.",
    },
    "C08": {
        "budget_s": {"quick": 120, "thorough": 720},
        "floor": {"quick": 10000, "thorough": 10000},
        "rule": "planted chain complexes of 1-5 (quick) / 1-6 maps, dims 0..10 / 0..16, over i64, BigInt, Ratio<i64>, FF<2>, FF<3>, FF<5> and Z[H] = Poly<H,i64> (unit and non-unit planted entries, conjugated by random unimodular maps); "
                "three routes: ChainReducer::reduce(c,true); a manual schedule of reduce_all(shallow/deep) / reduce_at / reduce_at_spec(i, Rows|Cols, One|AnyUnit|Weight(1,2,5)) with per-degree tracking flags and 0-2 tracked vectors per degree; "
                "ChainComplexBase::reduced(); x rayon pools of 1,2,4,8,16 threads x hook schedule policies (sleep before the pivot write lock, herd, delayed column starts); "
                "checks (oracle products): shapes, d'd' = 0, f d = d' f, d b = b d', f b = id, tracked vector = f(v), homology of the reduced complex = homology of the original "
                "(own SNF; over Z[H] after H := 0,1,2,-1 and additionally mod 2 and 3); non-trivial = at least one generator pair cancelled and >= 2 maps; distinct = hash(differentials, route, schedule, flags) Half of the ChainComplexBase::reduced cases call reduced() twice; the transfer maps of the second result are judged against the original complex.",
        "assumptions": COMMON_ASSUME + [
            "b f ~ id (the homotopy) is not checked directly; it is implied for these complexes by f b = id, the chain-map identities and equality of homology decided by the oracle",
            "over Z[H] homology is compared after specialisation (necessary conditions), since Z[H] is not a PID",
            "different runs may return different reductions (pivot races, hash order); each is judged on its own",
        ],
        "technique": "reference-model monitor under varying strategies, thread pools and hook-injected schedule perturbation: reduced differentials, transfer maps and tracked vectors re-multiplied by own exact arithmetic; homology recomputed by an independent SNF",
        "level_text": "Exploration: tens to hundreds of thousands of real reductions across seven rings, three API routes, all pivot strategies and 1..16 threads with perturbation of the pivot race window; every identity of the statement is recomputed exactly. Right level: input x configuration x schedule property with exact oracles for each clause.",
        "level_note": "Trusts the planted construction and the oracle SNF; schedules sampled.",
    },
    "C09": {
        "budget_s": {"quick": 120, "thorough": 480},
        "floor": {"quick": 20000, "thorough": 20000},
        "rule": "per ring (BigInt, i64, i128, Gauss/Eisenstein over BigInt|i64|i128, Ratio<BigInt|i64>, FF<2,3,5>, FF2, Poly<x,Q|F3|F2>): seeded matrices m,n in 0..7 (quick) / 0..10 "
                "(zero, sparse, dense, rank-deficient products, planted U*D*V with non-chained diagonals, diagonal inputs; entries from tiny to 2000-bit for arbitrary precision) x a random subset of the four transform flags; "
                "checks: D diagonal, zeros last, normalised, d_i | d_{i+1}, diagonal ~ textbook SNF of A, ~ gcds of minors (<= 4x4), every product identity available for the returned transforms "
                "(D=PAQ, PA=DQ^-1, AQ=P^-1D, A=P^-1DQ^-1, PP^-1=I, QQ^-1=I), lone transforms unimodular, rank()/factors() accessors, no panic on arbitrary-precision rings, hook step counters under a logical bound; "
                "non-trivial = rank >= 2 or entries beyond 2^53; distinct = hash(matrix, flags) Bulk accessors trans() / destruct() and snf_in_place agree with the single accessors and with snf.",
        "assumptions": COMMON_ASSUME + [
            "machine-integer rings may overflow inside LLL/SNF: counted as inconclusive (the property promises no panic only for arbitrary precision)",
            "termination is judged on hook step counters against 1000 + 200 (m+n)^2 (bits+16), never on wall-clock time",
            "polynomial matrices over Q are kept <= 4x4 with small coefficients (coefficient explosion makes larger cases too slow for a per-change check)",
        ],
        "technique": "reference-model monitor: real snf() calls on seeded matrices over every supported ring; all matrix identities re-multiplied and invariant factors recomputed by an independent exact dense model; hook step counters as logical clock",
        "level_text": "Exploration: hundreds of thousands of seeded matrices per run across 17 ring types and all 16 flag subsets; each returned D, P, P^-1, Q, Q^-1 is judged by exact re-multiplication, an independent textbook SNF and minors. Right level: the contract is an input/configuration property with a cheap exact oracle.",
        "level_note": "Trusts the oracle's dense arithmetic and textbook SNF (self-tested against minors); sampled shapes and entries, not exhaustive.",
    },
    "C10": {
        "budget_s": {"quick": 120, "thorough": 480},
        "floor": {"quick": 10000, "thorough": 10000},
        "rule": "lll_hnf: same matrix families as C09 (any shape incl. 0 rows/cols, any rank, entries to 2000 bits) over BigInt, i64, i128, Gauss/Eisenstein over BigInt and i64 x transform flags; "
                "lll: matrices with independent rows (checked by the oracle rank; 0 <= m <= n <= 8, incl. unimodularly skewed bases) over the same rings; checks: H = P A, P P^-1 = I, P^-1 H = A, P unimodular, "
                "echelon shape (leading columns strictly increasing, zero rows last), pivots normalised, entries above a pivot of strictly smaller norm, #non-zero rows = oracle rank; B = P A, P unimodular, "
                "size-reducedness (mu coordinates in the ring's division basis within [-1/2,1/2]) and Lovasz (alpha = 3/4, 2/3 for Eisenstein) by exact Gram-Schmidt over Q(sqrt D); hook step counters under a logical bound; "
                "non-trivial = >= 2 rows and non-zero (HNF) / >= 2 rows and input not already reduced (LLL); distinct = hash(matrix, flags) A near-tie family (Gram-Schmidt coefficient a hair beside k + 1/2, Gram determinants 2^40..2^62) is mixed in for BigInt.",
        "assumptions": COMMON_ASSUME + [
            "machine-integer rings may overflow inside LLL: counted as inconclusive",
            "termination judged on hook iteration counters against 1000 + 64 (m+1)^2 (bits (n+1) + 16), never on time",
            "LLL inputs whose rows are dependent are skipped (the property only speaks of independent rows)",
        ],
        "technique": "reference-model monitor: real lll()/lll_hnf() calls judged by exact re-multiplication, own echelon/normalisation predicates and exact Gram-Schmidt (size-reduction + Lovasz) over Q(sqrt D); hook iteration counters as logical clock",
        "level_text": "Exploration: hundreds of thousands of seeded matrices over Z, Z[i], Z[omega] (machine and arbitrary precision); the Hermite and LLL contracts are decided by an exact oracle. Right level: input/configuration property with a cheap exact judge; termination restated as a logical step bound.",
        "level_note": "Trusts the oracle's exact Gram-Schmidt and dense arithmetic; the Lovasz constants (3/4, 2/3) are taken from the library's documented choice; sampled inputs.",
    },
    "C11": {
        "budget_s": {"quick": 120, "thorough": 480},
        "floor": {"quick": 20000, "thorough": 20000},
        "shards": 16,
        "rule": "seeded sparse matrices over i64, Ratio<i64>, FF<3>, FF<5>, Poly<H,i64>: random (1..40/60 rows and columns, 1-5 entries per row, mix of +-1, other units, non-units) and the 'starved' family "
                "(one light dense row that becomes the only sequential pivot and occupies every column; all other rows start with a heavy non-candidate and share a narrow span of +-1 columns, so they all reach the parallel phase with colliding candidates) "
                "x {Rows, Cols} x {One, AnyUnit, Weight(1,2,3,5)} x rayon pool size {1,2,3,4,8,16} x schedule policy at the hooks {none, 0-300us sleep before the write lock, herd of k workers, yield storm}; "
                "final-state oracle: distinct rows/columns, condition (hand-written unit tests per ring), triangular leading block by definition and through perms_by_pivots+permute, no panic; "
                "trace monitor over hook events: commit indices contiguous, snapshot <= index, fresh row/column, every commit acyclic w.r.t. all earlier pivots (own DFS), no lost commit; "
                "non-trivial = >= 2 rows reached the parallel phase; distinct = hash(matrix, commit order, type, condition) One call in four goes through the public PivotFinder object instead of the free function.",
        "assumptions": COMMON_ASSUME + [
            "interleavings are sampled (OS scheduler + injected sleeps/herds/yields at the hook points), not enumerated; evidence reports retries, stale-snapshot commits and distinct commit orders actually observed",
            "deadlock is judged by an in-process quiescence watchdog (case running > 30 s, all worker threads sleeping, no CPU progress over 2 s), never by wall-clock alone",
            "thorough tier only: 12 small starved matrices x 16 Miri scheduler seeds (cargo +nightly miri run, -Zmiri-many-seeds, preemption rate 0.05): each seed is one deterministic interleaving of the rayon workers, replayable by (case, seed); counts are in coverage.miri_scheduler_tier",
            "the weight of an entry is the library's c_weight (it is the definition of the Weight condition); unit-ness is judged independently",
        ],
        "technique": "trace monitor + final-state oracle: real find_pivots calls under hook-injected schedule perturbation and varying pool sizes; event log (PivCommit/PivRetry/...) checked for commit freshness and acyclicity, result checked for triangularity",
        "level_text": "Exploration of schedules and inputs: hundreds of thousands of real parallel pivot searches with injected delays at the race window (between candidate choice and the write lock), herding of workers and 1..16 threads; the monitor observes thousands of retries and stale-snapshot commits per run, checks every commit against all earlier ones and the final list against the triangularity definition. Right level: the property quantifies over schedules, which only executions under perturbation can sample.",
        "level_note": "Schedules are sampled, not enumerated; the hook callback adds delays only at the library's own schedule points. Trusts the own DFS acyclicity check.",
    },
    "C12": {
        "budget_s": {"quick": 120, "thorough": 480},
        "floor": {"quick": 20000, "thorough": 20000},
        "rule": "triangular kernels: upper/lower A (n <= 24 quick / 40) with unit diagonal entries taken from the ring's units (+-1; +-1,+-i over Z[i]; 2, 1/2, -3/7.. over Q; any non-zero over F_p), random off-diagonal entries, "
                "explicit stored zeros injected through From<CscMatrix>, right-hand sides with 0..300 columns (so one worker solves many columns in a row) -> A X = Y (and X = own substitution), X A = Y, A A^-1 = I, vector solve; "
                "Schur: M with a leading r x r such block, r from 0 to min(m,n) -> S = D - C A^-1 B (own substitution), F_tgt M B_src = S, F B = I on both sides, F_tgt M = S F_src, M B_src = B_tgt S; "
                "dir_sum_decomp: scrambled block-diagonal integer matrices with empty rows/columns, with and without stored zeros -> permuted matrix (by definition of the returned permutations) = block sum padded with zeros, "
                "block count = own connected-component count when no zeros are stored; all over rayon pools of 1,2,4,16 threads reused for short call histories, with hook-injected delays at column start; "
                "rings i64, BigInt, Ratio<i64|BigInt>, FF<5>, FF<7>, GaussInt<i64>; non-trivial = >= 2 columns on one worker or n >= 2 (triangular), r >= 1 (Schur), >= 2 planted blocks (decomp) dir_sum_decomp on >1 thread is compared exactly with the value on a one-thread pool; skew family (one 17-60-entry column against 2-3-entry columns); dir_sum_indices and Schur::disassemble agree with the main routes.",
        "assumptions": COMMON_ASSUME + [
            "the scratch-vector residue reported by the ColDone hook is recorded as a diagnostic counter only; the verdict is the solved system itself (a residue that matters corrupts a later column on the same worker, which the product check sees)",
            "thread schedules are sampled; evidence reports the maximum number of columns one worker solved in a row",
        ],
        "technique": "reference-model monitor under varying thread pools and hook-injected delays: solve/Schur/decomposition results re-multiplied and re-derived by own dense exact arithmetic; union-find component oracle for block splitting",
        "level_text": "Exploration: hundreds of thousands of kernel calls over seven rings, four pool sizes and injected delays; every identity in the statement is recomputed exactly by the oracle, including the one-thread/many-thread agreement (the solution is unique, so equality with the own substitution solution decides both). Right level: input x schedule property with an exact judge.",
        "level_note": "Trusts oracle substitution and dense products; schedules sampled, not enumerated.",
    },
    "C14": {
        "budget_s": {"quick": 60, "thorough": 480},
        "floor": {"quick": 50000, "thorough": 50000},
        "rule": "per scalar type (i32,i64,i128,BigInt, Ratio<i64|i128|BigInt>, FF2, FF<2,3,5,7,32749,46337,65537,2147483647>, QuadInt<i64|i128|BigInt,D> for D in -1,-3,2,-2,5,-7): "
                "seeded histories of 5-30 steps on a pool of 4 values (boundary-biased magnitudes: 0,+-1, 2^31, 2^53, 2^63, 2^127 +-2, 64..2000-bit), each step one of +,-,*,neg in one of the "
                "six operator forms (val/ref/assign), compared after every step with a BigInt-based model incl. canonical representation, ==, is_zero/is_one and Ord; "
                "machine types must return the model value when representable and must fail (never wrap) otherwise; non-trivial = history of >= 5 steps; distinct = hash of the history Minimum exactness domain for machine rationals: an overflow panic is a violation when every intermediate of the common-denominator (lcm) algorithm is representable in the symmetric range, inconclusive otherwise. The same for machine quadratic integers: an overflow in +, -, * is a violation when the four partial products ac, bd, ad, bc, bd*p and the partial sums of the schoolbook formulas x = ac + bd p, y = ad + bc + bd q (w^2 = p + q w) are representable.",
        "assumptions": COMMON_ASSUME + [
            "composite machine-integer types (Ratio<i64>, QuadInt<i64,D>) may overflow in an intermediate product although the result is representable: counted as inconclusive, not as violation",
            "BigInt (num-bigint) itself is additionally checked against residues modulo three 61-bit primes computed from decimal digits with u128 arithmetic",
        ],
        "technique": "reference-model monitor: random operation histories on every scalar type, each operator form judged against own BigInt-based ring models (value, canonical form, equality, order)",
        "level_text": "Exploration: seeded operation histories on every supported scalar type with boundary-biased operands; each step's result, its stored representation, equality and ordering are decided by an independent exact model. Right level because the property is an input/history property of value types; the oracle is exact so any wrong value, non-canonical representative or inconsistent comparison is seen at the step where it appears.",
        "level_note": "Trusts num-bigint as the model's base (itself residue-checked) and the field-by-field conversion lib->model; sampled operands, not exhaustive.",
    },
    "C15": {
        "budget_s": {"quick": 90, "thorough": 480},
        "floor": {"quick": 20000, "thorough": 20000},
        "rule": "per Euclidean type (i32,i64,i128,BigInt, Gauss/Eisenstein integers over i64,i128,BigInt, Ratio<i64|BigInt>, FF<2,3,7,46337>, FF2, Poly<x,Q|F2|F3|F7>, HPoly<H,Q|F3|F2>): "
                "seeded operand pairs (boundary-biased magnitudes 0..2^2000; related pairs: multiples, associates, common factors, equal, zero) -> division identity and Euclidean size of the remainder "
                "(all operator forms), divides, gcd (divides both, greatest w.r.t. own Euclid, symmetric, normalised), gcdx (Bezout identity, d = gcd), lcm*gcd ~ a*b, is_unit <=> inv, a*inv = 1, "
                "normalizing unit (unit, idempotent, constant on the enumerated unit orbit); plus exact nearest-integer rounding of div_round for the integer types incl. exact halves; "
                "non-trivial = b does not divide a with size(b) >= 2, or an operand beyond 2^53; distinct = hash of the operand pair div_round inputs include exact halves, near-halves and the double-rounding window of floating-point shortcuts (|b| ~ 2^49..2^54).",
        "assumptions": COMMON_ASSUME + [
            "machine-integer based composite types (Gauss/Eisenstein over i64/i128, Ratio<i64>, Poly over Ratio<i64>) may overflow in an intermediate: counted as inconclusive; the same rings over BigInt must never panic",
            "for Z[i], Z[omega] 'normalised' is judged convention-free (fixed point of normalisation + constant on the six/four associates); for Z, fields and K[x] additionally by the universal convention (non-negative, 1, monic)",
        ],
        "technique": "reference-model monitor: Euclidean-domain identities (division, gcd, Bezout, lcm, units, normalisation, exact rounding) evaluated with own exact arithmetic on seeded boundary-biased operand pairs",
        "level_text": "Exploration: millions of seeded operand pairs per ring (tens of thousands in the quick tier) with magnitudes from 0 to 2^2000; every identity in the statement is re-evaluated by an independent exact model. Right level: pure input property of value types with an exact oracle.",
        "level_note": "Trusts the oracle's own Euclid / norms / unit lists; sampled operands, not exhaustive.",
    },
    "C17": {
        "budget_s": {"quick": 40, "thorough": 480},
        "floor": {"quick": 500, "thorough": 500},
        "rule": "boundary sweep of every length 0..64 plus seeded random histories of 10-200 operations over a pool of three "
                "sequences (new, new_rev, zeros, ones, from_iter, parse, push, append, insert, remove, set, sub, is_sub, index, "
                "cmp, generate, edit, from-array; lengths biased to 0,1,31..33,62..64, arguments at and one past each bound) "
                "checked step by step against a Vec<bool> model; non-trivial = history reaches length >= 63; distinct = hash of the operation history Bit conversions and every operator form (set / set_0 / set_1, insert / insert_0 / insert_1, push*, +=).",
        "assumptions": COMMON_ASSUME + ["new_rev is only driven with val < 2^len (its behaviour on wider values is unspecified)"],
        "technique": "reference-model monitor: random operation histories on BitSeq judged step by step by a Vec<bool> model (valid ops must succeed, invalid ops must be rejected, all observables compared)",
        "level_text": "Exploration: hundreds of thousands of seeded operation histories plus a boundary sweep of every length 0..64 run against the real BitSeq; each step is decided by an executable list-of-booleans model. Right level because the property is a pure input/history property of a small value type: a model-based online monitor sees every wrong result at the step where it becomes observable.",
        "level_note": "Trusts the Vec<bool> model and that argument generators reach the boundaries (evidence reports max length reached and counts of rejected invalid operations). Sampled, not exhaustive.",
    },
    "C18": {
        "budget_s": {"quick": 120, "thorough": 720},
        "floor": {"quick": 5000, "thorough": 5000},
        "rule": "all 2214 PD codes and 801 braid words shipped with yui-link (as inputs), plus seeded derived diagrams: R1 kinks of the four kinds (repeated edges), a ring laid over an edge (over-only component), split unions, connected sums, "
                "switched crossings (mixed X/Xm data), mirror, global orientation reversal, edge relabelling, crossing permutation, and random braid words on 2..8 strands of length <= 20; "
                "checks against own PD tools: components = strand orbits (partition), crossing signs = one of the orientations compatible with the under-strand rule (2^k choices for k over-only components), "
                "writhe / signed numbers consistent and invariant under renumbering and reordering, negated by mirror, circles of every resolution state (all 2^n for n <= 9, 96 random above) = edge-identification count, "
                "also after resolving one crossing first (diagram with history), Seifert circles = oriented resolution, is_knot, closure: #crossings = #letters, #components = #cycles, writhe = exponent sum, PD edge-bijective to the own geometric closure; "
                "non-trivial = >= 2 components or kink / over-only component / split piece; distinct = hash(PD code, switched flags) Link::load / from_pd_code / edges / ori_pres_state against the stored code; chains of resolved_at in random order (i-th unresolved crossing). Braid-word algebra: inv() is the group inverse, product concatenates, FromIterator / elements / strands / len / Braid::load agree with the word.",
        "assumptions": COMMON_ASSUME + ["every generated diagram must pass the oracle's PD validator (2 ends per edge, coherent orientation, planarity by Euler characteristic); a rejected diagram is a generator fault, never a verdict"],
        "technique": "reference-model monitor: yui-link routines on table and derived diagrams judged by own union-find / orientation-propagation / state-circle counting and an own braid closure",
        "level_text": "Exploration: every shipped diagram plus tens of thousands of derived diagrams per run (millions of resolution states), each judged by an independent combinatorial model built from the raw PD code. Right level: input property with an exact, cheap oracle.",
        "level_note": "Trusts the PD conventions of the Knot Atlas as encoded in the oracle (self-tested against the published trefoil data); inputs sampled.",
    },
    "C01": {
        "need_old": True,
        "budget_s": {"quick": 150, "thorough": 720},
        "floor": {"quick": 3000, "thorough": 3000},
        "rule": "diagrams: empty link, kinked unknots, table PD codes with <= 8 (quick) / 10 crossings incl. multi-component links, optionally transformed (R1 kinks, split union, connected sum, switched crossings = mixed X/Xm data, mirror, "
                "orientation reversal, relabelling, crossing permutation) x rings i64, BigInt, Ratio<i64>, FF2, FF<2>, FF<3> x (h,t) in {(0,0),(1,0),(0,1),(2,0),(1,1),(2,3),(-1,2),(3,-2)} (reduced mod p for fields) x reduced (t=0) / unreduced "
                "x build configuration (default; explicit crossing absorption orders fed one crossing at a time through the public builder; auto_deloop/auto_elim on/off) x rayon pools of 1,2,4,16 threads; "
                "oracle: definition-level cube of resolutions over Z built from the raw PD code, homology by own unit-pivot cancellation + textbook SNF (mod p for fields): rank and invariant factors per degree, and for h=t=0 the bigraded "
                "table by both library routes; second opinion: the library's own first-generation engine (explicit cube, cargo feature `old`, separate process vh-old) on table diagrams with 3..10 (quick) / 11 crossings over Z, Q, F2, F3; "
                "non-trivial = >= 3 crossings or >= 2 components or (h,t) != (0,0); distinct = hash(PD, ring, h, t, reduced, order, policy, threads) Further public build paths: divide-and-conquer (two tangle complexes with their own degree shifts glued by TngComplex::connect), set_h_range before / during / after the build (judged strictly inside the range), KhHomology::truncated / KhComplex::truncated / h_range / q_range.",
        "assumptions": COMMON_ASSUME + [
            "oracle-checked diagrams are bounded by 10 crossings; larger diagrams are covered only through the relations of C02/C03",
            "polynomial parameters (H,T) are covered by composition with C05 (specialisation commutes) rather than by a polynomial oracle",
            "diagrams with over-only components are excluded here (their orientation is a free choice; C18/C04 cover them)",
            "the cube oracle's conventions are pinned by the published Khovanov homology of 3_1 in `vh selftest`",
        ],
        "technique": "reference-model monitor: real Khovanov computations (all build orders / policies / thread counts reachable through the public API) compared with an independent definition-level cube-of-resolutions oracle",
        "level_text": "Exploration: thousands (quick) to hundreds of thousands of (diagram, ring, (h,t), variant, configuration) tuples per run, each compared with a definition-level oracle that shares no code with the library. Right level: the property is an input x configuration x schedule statement and the oracle is exact for the bounded diagrams it can afford.",
        "level_note": "Trusts the own cube construction (self-tested against published data) and SNF; bounded by diagram size.",
    },
    "C04": {
        "budget_s": {"quick": 120, "thorough": 720},
        "floor": {"quick": 1500, "thorough": 1500},
        "rule": "table diagrams (<= 11 crossings) with 0-2 random transformations (R1 kinks, ring laid over an edge, split union, connected sum, switched crossing, mirror) and closures of random braid words on 2..5 strands; "
                "checks: jones_polynomial = own Kauffman state sum (BigInt; one of the 2^k orientation choices for over-only components), Jones(mirror)(q) = Jones(q^-1), "
                "sum (-1)^i q^j rank Kh^(i,j) (ranks from KhComplexBigraded over i64, <= 10 crossings) = jones_polynomial, invariance under PD-level moves (relabel, permute, reverse, R1) and braid-level moves "
                "(sigma sigma^-1, braid relation incl. mixed signs, far commutation, conjugation, Markov (de)stabilisation of either sign), and the polynomial of a diagram with history (one crossing smoothed in the oriented way first); "
                "every generated diagram must pass the oracle validator and every move must keep the ORACLE's polynomial (else generator fault, inconclusive); non-trivial = >= 3 crossings or >= 2 components; distinct = hash(PD, flags) / (word, moved word)",
        "assumptions": COMMON_ASSUME + ["the i32 coefficients of the library's routine may overflow on large diagrams: counted as inconclusive"],
        "technique": "reference-model + metamorphic monitor: library Jones routine and Khovanov ranks compared with an own state-sum oracle; invariance under generated isotopy moves whose soundness is checked against the oracle",
        "level_text": "Exploration: thousands to hundreds of thousands of diagrams and move sequences; identity and invariance are decided by an exact independent state sum. Right level: input/history property with a cheap exact oracle for bounded diagrams.",
        "level_note": "Trusts the oracle state sum (self-tested against the published Jones polynomial of 3_1 and chi of the oracle cube); bounded by 13 crossings.",
    },
    "C02": {
        "budget_s": {"quick": 150, "thorough": 720},
        "floor": {"quick": 800, "thorough": 800},
        "rule": "pairs (D, M.D): closures of random / table braid words (2..5 strands, <= 13 crossings quick / 18) under 1-8 braid-level moves (sigma sigma^-1 insertion/cancellation, braid relation incl. mixed signs, far commutation, "
                "conjugation, Markov stabilisation/destabilisation of either sign) and table PD codes (<= 10 crossings) under 1-6 PD-level moves (edge relabelling, crossing permutation, global orientation reversal [a,b,c,d]->[c,d,a,b], "
                "Reidemeister I kinks of the four kinds); rings i64, BigInt, Ratio<i64>, FF2, FF<3>; reduced for knots; pools of 1,4,16 threads; checks: bigraded table (homology of the bigraded pieces) of D = table of M.D; "
                "table(mirror D) = free (i,j)->(-i,-j), torsion (i,j)->(1-i,-j); table of 'PD code of name N' = table of 'closure of braid word of name N' up to mirror; "
                "soundness of the generator: both diagrams pass the oracle validator and have the same ORACLE bracket polynomial (else inconclusive); non-trivial = at least one move other than conjugation and >= 3 crossings; distinct = hash(D, M.D, reduced) One moved diagram in six (<= 9 crossings) is built divide-and-conquer (TngComplex::connect). One braid-level pair in five gets an additional conjugation g*b*g^-1 carried out with the library's own braid algebra (Braid product, Braid::inv).",
        "assumptions": COMMON_ASSUME + ["Reidemeister II/III are exercised at braid level (sigma sigma^-1 and the braid relation), Reidemeister I at both levels", "the two resource tables may follow different chirality conventions: equality is required only up to mirror there"],
        "technique": "metamorphic monitor: two real Khovanov computations related by generated isotopy moves / mirroring must agree; move generator validated against an independent bracket-polynomial oracle",
        "level_text": "Exploration of diagrams and move histories: thousands (quick) to hundreds of thousands of (diagram, move sequence, ring) tuples. The relation itself is the oracle; soundness rests on the generator, which is checked on every case by an independent invariant. Right level: the property quantifies over all move sequences, which can only be sampled.",
        "level_note": "A generator bug that produced non-isotopic diagrams with equal bracket polynomial could cause a false alarm; none was observed on the unchanged tree over all seeds tried.",
    },
    "C03": {
        "budget_s": {"quick": 150, "thorough": 720},
        "floor": {"quick": 300, "thorough": 300},
        "shards": 16,
        "rule": "links: torus links T(2,5)..T(6,7) (odd and composite torsion; T(6,7) = 35 crossings), every 5th table diagram with <= 10 crossings (quick) / all <= 11, closures of random braid words (<= 11/14 letters, optionally one switched crossing); "
                "for each link 14 real computations: bigraded tables by both library routes (homology of bigraded pieces / total homology split by generator q-degree) over i64, BigInt, i128, Ratio<i64>, FF2, FF<2>, FF<3>, reduced over i64 and FF2; "
                "relations checked: two routes agree (Z, Q, F2, F3, reduced Z), i64 = i128 = BigInt, FF2 = FF<2>, rank_Q = free rank_Z, dim_Fp(i,j) = rank_Z(i,j) + #{p | torsion in (i,j)} + #{p | torsion in (i+1,j)}, "
                "F2 unreduced = reduced (x) unknot; non-trivial = torsion present or >= 2 components; distinct = hash(PD, flags) For <= 9 crossings the Z and F3 tables are also assembled column by column from KhComplex::truncated(i-1..=i+1) windows and must equal the tables of the whole complex. Fixed workload also contains split unions / connected sums of torus links (T(4,5) with T(2,3) or T(2,5), T(3,5) with T(3,4)): torsion of different orders in one homological degree.",
        "assumptions": COMMON_ASSUME + ["the relations are necessary conditions between library results (no external oracle here; C01 ties the tables to the definition for small diagrams)", "finding keys include the link so that a different link failing the same relation is reported as a new violation"],
        "technique": "metamorphic / cross-configuration monitor: the same link computed over seven coefficient types and by two routes; universal-coefficient arithmetic evaluated by the monitor",
        "level_text": "Exploration: hundreds to thousands of links, each computed 14 ways; the relations of the statement are evaluated exactly on the results. Right level: the property relates configurations of real runs; the first known counterexample needs a 35-crossing input far beyond unit tests, which the torus family reaches.",
        "level_note": "Relations are necessary, not sufficient; combined with C01/C02 for absolute correctness.",
    },
    "C05": {
        "budget_s": {"quick": 150, "thorough": 720},
        "floor": {"quick": 1500, "thorough": 1500},
        "rule": "diagrams as in C01 (<= 8 crossings quick / 10) x parameter rings K[H] (h=H,t=0), K[T] (h=0,t=T), K[H,T] for K in i64, Ratio<i64>, FF<2>, FF<3> x reduced (t=0) / unreduced x pools of 1,4,16 threads; "
                "KhComplex::<R>::new(..).d_matrix(i) and the generator lists are exported term by term; checks with own polynomial arithmetic: matrix/generator sizes consistent, every generator of C_i has h-degree i, "
                "every monomial c H^a T^b from x to y satisfies qdeg(y) - 2a - 4b = qdeg(x), d_{i+1} d_i = 0, and for 2 (quick) / 4 evaluation points (h0,t0) from {0,+-1,2,3}x{0,+-1,2,-2,3} the evaluated complex has the same homology "
                "(own cancellation + SNF over Z incl. torsion; ranks via a 31-bit prime for Q; mod p for F_p) as KhHomology::new(l,h0,t0,reduced) over the matching ring; non-trivial = >= 3 crossings; distinct = hash(PD, flags, reduced) One complex in three is built divide-and-conquer (two halves glued by TngComplex::connect).",
        "assumptions": COMMON_ASSUME + ["ranks over Q are computed modulo the prime 2^31-1 (a rank drop modulo that prime would show as a false alarm; none observed)", "non-PID rings have no homology oracle: d^2 = 0, grading and commutation with specialisation are what is checked there"],
        "technique": "reference-model monitor: exported differentials re-multiplied / re-graded / re-evaluated with own polynomial and modular arithmetic, evaluated complex compared with the directly built one",
        "level_text": "Exploration: thousands to hundreds of thousands of (diagram, parameter ring, variant) tuples; each of the three clauses (d^2=0, grading, specialisation) is decided exactly by independent arithmetic on the exported matrices. Right level: input/configuration property with exact, cheap judges.",
        "level_note": "Trusts the term-by-term export (iter over stored terms) and own arithmetic.",
    },
    "C06": {
        "budget_s": {"quick": 150, "thorough": 720},
        "floor": {"quick": 1500, "thorough": 1500},
        "rule": "knot diagrams: table knots (3..9 crossings quick / 10), closures of random braid words that are knots, kinked unknots; (a) KhComplex::<i64>::new(D,h,0,red) for h in {0,+-1,2,3}: number of canonical cycles (2 / 1 reduced), "
                "every generator in h-degree 0, d z = 0, and for h != 0 the class is non-torsion (rank[d_-1 | z] = rank d_-1 + 1 by own elimination modulo 2^31-1 on the exported matrices); "
                "(b) links (table, split unions, switched crossings): homology with (h,t) = (1,0) over Z free of total rank 2^{#components}, with (0,1) over Q of total rank 2^{#components} (components counted by the oracle); "
                "(c) ss_invariant for c = 2, 3 over i64, c = 2 over BigInt, c = H over F2[H], F3[H], Q[H]: reduced = unreduced, ss(mirror) = -ss, unchanged by 1-4 PD moves (relabel, permute, reverse, R1; bracket-checked), "
                "ss(K-) <= ss(K+) <= ss(K-) + 2 for a random crossing of every diagram, 0 on kinked unknots; non-trivial = >= 3 crossings (or >= 2 components for (b)); distinct = hash of the diagram(s) and parameters In the reduced theory half of the canonical-cycle cases mark a random edge as base point through the public TngComplexBuilder. A third of the canonical-cycle cases compute only the window -1..=1 (set_h_range before or after the crossings are absorbed); for h != 0 the degree-0 homology must have rank 2 (reduced: 1). A quarter of the plain canonical-cycle cases go through the public builder with a random explicit crossing order and, for <= 7 crossings, with auto_deloop / auto_elim switched off (cycles carried through finalize, half of the time through a deferred eliminate_all).",
        "assumptions": COMMON_ASSUME + ["absolute values of ss are pinned only for unknots; otherwise relations between real runs are checked", "for h = 0 a vanishing canonical cycle is legitimate (the property demands non-torsion only for h != 0)"],
        "technique": "reference-model + metamorphic monitor: canonical cycles checked on exported matrices with own modular rank; ss compared across isotopic diagrams, variants, mirror and crossing changes",
        "level_text": "Exploration: thousands to hundreds of thousands of knot diagrams, crossings and move sequences; cycle conditions are decided exactly, the s-invariant through the relations the statement lists. Right level: input/history/configuration property.",
        "level_note": "Non-torsion is decided modulo a 31-bit prime (one-sided error negligible); ss relations are necessary conditions.",
    },
    "C19": {
        "budget_s": {"quick": 150, "thorough": 720},
        "floor": {"quick": 300, "thorough": 300},
        "rule": "the 23 built-in strongly invertible PD codes, their mirrors, and the same codes with the crossings listed in random orders (sinv_knot_from_code); FF2 with (h,t) in {(0,0),(1,0),(0,1),(1,1)} (reduced only for t=0) "
                "and F2[H] with (H,0); checks: d^2 = 0 (check_d_all), KhI ranks per degree = homology of the explicitly built Cone(1+tau) over F2 (own cube, tau induced on states and circle labels by e -> (n+1-e) mod n + 1; codes with <= 7 (quick) / 8 crossings), "
                "symmetric construction without the involutive part = KhHomology::new of the underlying knot, over F2[H]: rank_i = dim Cone at H=1, rank_i + tors_i + tors_{i+1} = dim Cone at H=0, "
                "ssi unchanged by the listing order, s0 <= s1, s0 = s1 mod 2, ssi(mirror) = (-s1,-s0), reduced = unreduced; distinct = hash(code order, mirror, h, t, reduced) Windowed computation through SymTngBuilder::set_h_range equals the full complex inside the window. User codes in the symmetric numbering beyond the table: every code renumbered from the other fixed point of the involution (all labels moved by half a turn; a third of the F2[H] cases, a quarter of the cone cases) and the 9-crossing code of 9_46 (s0 != s1; ssi relations and d^2 = 0).",
        "assumptions": COMMON_ASSUME + ["no generator of new strongly invertible diagrams exists: inputs are the built-in table and one further user code (9_46) under reordering, mirroring and renumbering from the other fixed point", "over F2[H] the cone comparison uses necessary conditions (dimensions at H=0 and H=1), all torsion being H-primary for these graded complexes"],
        "technique": "reference-model + metamorphic monitor: KhI computed by the library compared with an explicitly constructed mapping cone of 1+tau on an own F2 cube; ssi compared across listing orders, mirrors and variants",
        "level_text": "Exploration over the available symmetric diagrams x parameters x listing orders (thousands of runs): the cone definition is checked against an independent construction, the invariants through their stated relations. Right level given that the input family is a finite table plus reorderings.",
        "level_note": "Trusts the own cube and the induced involution (the oracle self-checks that tau maps circles to circles and preserves degree).",
    },
    "C20": {
        "budget_s": {"quick": 150, "thorough": 720},
        "floor": {"quick": 500, "thorough": 500},
        "need_ykh": True,
        "rule": "seeded samples of the product {kh, ckh} x -t {Z,Q,F2,F3,(absent)} x -c {absent, '', 0, 1, 2, -3, '0,1', '1,1', '2,0', H, '0,T', 'H,T', T, 'H,0', foo, '1,', '2,3,4', '0,0,junk', 'H,T,7', ',1'} x {-m} x {-r} x "
                "LINK {3_1, 4_1, 5_2, 6_2, 7_7, L2a1, L6n1, PD JSON of knots / Hopf / L6n1, [], [[0,0,1,1]]; and the error inputs foo, %%%, [[1,2,3]], [[1,2,3,4]] (structurally invalid), 3_1x, unbalanced JSON}; "
                "the real ykh binary built from the tree is run per sample; for supported combinations the stdout table is parsed independently (fields = runs of >= 2 spaces; cell -> ring symbol, rank, multiset of torsion strings; '.' / '0' = zero cell) "
                "and compared in both directions with KhHomology / KhComplex::gen_grid computed in-process over the ring implied by (-t,-c) (own dispatch table, own -c splitting rule): kh always cell by cell; "
                "ckh cell by cell for h=t=0 and through the (graded) Euler characteristic otherwise, because the simplified complex is not canonical for deformations; unsupported ring for kh (Z[H], any [H,T]), reduced with t != 0, "
                "malformed -c, bad link input and library panics must give exit != 0, a message on stderr and no table on stdout; non-trivial = non-default option or an error class; distinct = hash(argv) The -c values include signed entries inside a pair (1,-1; -1,1; 2,-3; ...); t = 0 for the reduced theory is judged in the coefficient ring.",
        "assumptions": COMMON_ASSUME + [
            "the expectation for a supported combination is the library called in-process with the same parameters (the property is about the command reporting the library's result; C01-C05 tie the library to the mathematics)",
            "ckh with numeric deformation prints a run-dependent (hash-order dependent) simplified complex even on the unchanged tree; only homotopy-invariant quantities are compared there",
            "negative -c values are passed as -c=<v> (clap convention)",
        ],
        "technique": "reference-model monitor on the real binary: subprocess runs over sampled option combinations, independent table parser, in-process library call as the model, error-path oracle (status, stderr, no table)",
        "level_text": "Exploration of the option product: about a thousand (quick) to tens of thousands of real invocations covering every -t/-c class, both commands, flags and all error classes; supported outputs are decided cell by cell against the library, error paths by status/stderr/stdout. Right level: a finite-but-large configuration product observed at the process boundary.",
        "level_note": "Trusts the in-process library as the model for supported combinations (by the statement) and the own parser.",
    },
    "C13": {
        "budget_s": {"quick": 120, "thorough": 480},
        "floor": {"quick": 20000, "thorough": 20000},
        "rule": "random programs of 5-40 operations over a pool of sparse matrices (i64, Ratio<i64>, FF<3>; shapes 0..7 incl. zero dimensions; explicit stored zeros injected through From<CscMatrix> and produced by a - a): "
                "from_entries with duplicate triplets and zeros, from_dense_data, from_col_vecs, +, -, * in three operator forms, neg, transpose, permute / permute_rows / permute_cols, submat(_rows/_cols), "
                "divide4 at arbitrary (non-square) split points with every block checked + combine_blocks, concat, stack, extend_cols, round trips through the dense container with swap / add_row_to / add_col_to, "
                "dense +=, -=, *, matrix * vector, SpVec split / stack / subvec / permute / +,-, is_zero / iter_nz / shape, id * A, A + 0; after every operation all entries are compared with a dense model updated by the definition; "
                "Trans histories of 2-10 steps (append, append_perm, merge, reduce, sub with arbitrary index lists incl. full-length reorderings and repetitions): forward_mat, backward_mat, forward(v), backward(w), dims compared with the "
                "product of the factors after every step; non-trivial = program touches a stored zero or a zero dimension or has >= 10 ops (Trans: >= 3 steps); distinct = hash of the history Also: permutation matrices, extract, stack_vecs, from_sorted_entries, into_vec / into_mat, dense mul_row / mul_col / left_elementary / right_elementary.",
        "assumptions": COMMON_ASSUME + ["SpMat::is_id is not judged (it inspects stored entries only; not among the operations the property lists)", "machine-integer overflow in products is counted as inconclusive"],
        "technique": "reference-model monitor: random operation programs on SpMat/SpVec/Mat/Trans compared entry by entry with a dense model after every step",
        "level_text": "Exploration: hundreds of thousands of programs (millions of operations) with zero-sized shapes, stored zeros and non-square split points; every step is decided by a definition-level dense model. Right level: input/history property of container types with an exact oracle.",
        "level_note": "Trusts the dense model and the permutation convention (entry (i,j) moves to (p[i], q[j])), which is the library's documented one.",
    },
    "C16": {
        "budget_s": {"quick": 120, "thorough": 480},
        "floor": {"quick": 20000, "thorough": 20000},
        "rule": "PolyBase over Var / Var2 / Var3 / MultiVar with usize and isize (Laurent) exponents and coefficients i64, Ratio<i64>, FF<3>, FF<5>, GaussInt<i64>: seeded histories of 5-30 operations on a pool "
                "(construction from term lists with duplicates and explicit zero terms; +, -, * in four operator forms incl. the *= special cases rhs one / constant / zero and lhs constant; neg; scalar *=; cancellations p+q-q, (p-p)q, (p+q)(p-q), "
                "products whose terms vanish in F_p); after every step: term set = model (BTreeMap<exponent vector, coeff> updated by definition), no stored zero coefficient, no stored zero exponent, nterms, is_zero, is_one, "
                "lead_term = own graded-lex maximum, == agrees with model equality for values reached by different histories and for the value rebuilt from its terms; monomial orders on random (and related) quadruples: antisymmetry, reflexivity, "
                "Equal <=> equal, transitivity, compatibility with multiplication, graded order compares total degree first; eval(p), eval(q), eval(p+q), eval(pq) against BigInt evaluation in 1-3 variables; "
                "Lc<Free<i32>,R> histories (+, -=, scalar *=, neg, a-a); non-trivial = a cancellation occurred or >= 2 variables; distinct = hash of the history Accessors after every step (coeff, coeff_for, const_term, is_const, lead_coeff, lead_deg, is_mono / as_mono, map_coeffs); Lc: combine with a non-injective product (Z[Z/3]), map_gens, filter_gens, apply, coeff.",
        "assumptions": COMMON_ASSUME + ["which variable a lexicographic order ranks first is a convention and is not judged; the order laws and the 'graded' rule are", "i64 coefficient overflow in products is counted as inconclusive"],
        "technique": "reference-model monitor: random operation histories on the polynomial / linear-combination types compared after every step with a BTreeMap model; order laws checked on sampled monomials; evaluation against BigInt",
        "level_text": "Exploration: hundreds of thousands of histories (quick) over 14 (monomial kind, coefficient ring) pairs; every observable of the statement is compared with an exact definition-level model after each step. Right level: input/history property of value types.",
        "level_note": "Trusts the BTreeMap model and own graded-lex comparison; sampled histories.",
    },
}
