# Per-property configuration of the driver: budgets, coverage floors, the
# non-triviality rule quoted in the evidence, and the stated assumptions.

COMMON_ASSUME = [
    "verdict is 'held on the executions explored', not a proof: inputs, configurations and schedules are sampled",
    "reference models in /verif/harness/src/oracle are trusted (cross-checked by `vh selftest` before every run)",
    "num-bigint arithmetic (third party) is trusted as the base of the oracles",
]

PROPS = {
    "C17": {
        "budget_s": {"quick": 40, "thorough": 600},
        "floor": {"quick": 500, "thorough": 5000},
        "rule": "boundary sweep of every length 0..64 plus seeded random histories of 10-200 operations over a pool of three "
                "sequences (new, new_rev, zeros, ones, from_iter, parse, push, append, insert, remove, set, sub, is_sub, index, "
                "cmp, generate, edit, from-array; lengths biased to 0,1,31..33,62..64, arguments at and one past each bound) "
                "checked step by step against a Vec<bool> model; non-trivial = history reaches length >= 63; distinct = hash of the operation history",
        "assumptions": COMMON_ASSUME + ["new_rev is only driven with val < 2^len (its behaviour on wider values is unspecified)"],
        "technique": "reference-model monitor: random operation histories on BitSeq judged step by step by a Vec<bool> model (valid ops must succeed, invalid ops must be rejected, all observables compared)",
        "level_text": "Exploration: hundreds of thousands of seeded operation histories plus a boundary sweep of every length 0..64 run against the real BitSeq; each step is decided by an executable list-of-booleans model. Right level because the property is a pure input/history property of a small value type: a model-based online monitor sees every wrong result at the step where it becomes observable.",
        "level_note": "Trusts the Vec<bool> model and that argument generators reach the boundaries (evidence reports max length reached and counts of rejected invalid operations). Sampled, not exhaustive.",
    },
}
