// vh-miri — the parallel pivot search under Miri's seeded scheduler (thorough tier of C11).
// Each Miri seed (-Zmiri-many-seeds) is one deterministic interleaving of the rayon workers; the same
// final-state and trace oracles as the native monitor are applied. One result line per execution:
//   MIRI-RESULT case=<n> ok=<0|1> commits=<k> retries=<r> stale=<s> order=<hash> [msg=...]

use std::collections::{HashMap, HashSet};
use std::sync::Mutex;

use yui_matrix::sparse::pivot::{find_pivots, PivotCondition, PivotType};
use yui_matrix::sparse::SpMat;
use yui_matrix::verif::{set_hook, Event};

static LOG: Mutex<Vec<Event>> = Mutex::new(Vec::new());

fn rnd(s: &mut u64) -> u64 { *s = s.wrapping_mul(6364136223846793005).wrapping_add(1442695040888963407); *s >> 33 }

/// the "starved" family of the native monitor, small: row 0 light and dense with a non-candidate head,
/// all other rows: heavy non-candidate at column 2 and a few +-1 / light non-candidates in a narrow span
fn starved(case: u64) -> (usize, usize, Vec<(usize, usize, i64)>) {
    let mut s = case.wrapping_mul(0x9E3779B97F4A7C15) ^ 0xD1B54A32D192ED03;
    let m = 6 + (rnd(&mut s) % 4) as usize;
    let span = 2 + (rnd(&mut s) % 2) as usize;
    let n = 3 + span + (rnd(&mut s) % 2) as usize;
    let mut e = vec![(0usize, 0usize, 2i64)];
    for j in 1..n { e.push((0, j, if rnd(&mut s) % 2 == 0 { 1 } else { -1 })) }
    // rows i >= 1: heavy head at column 2, then entries in the shared span: +-1 (candidates) and 2 (light
    // non-candidates), at least one candidate: mutually exclusive choices such as {x: 1, y: 2} / {x: 2, y: 1}
    for i in 1..m {
        e.push((i, 2, 1000));
        let mut have_cand = false;
        let mut row = vec![];
        for j in 3..3 + span {
            match rnd(&mut s) % 4 { 0 => {} 1 => row.push((i, j, 2)), 2 => { row.push((i, j, 1)); have_cand = true } _ => { row.push((i, j, -1)); have_cand = true } }
        }
        if !have_cand { let j = 3 + (rnd(&mut s) as usize % span); row.retain(|x| x.1 != j); row.push((i, j, 1)) }
        e.extend(row);
    }
    (m, n, e)
}

fn main() {
    let case: u64 = std::env::var("VH_MIRI_CASE").ok().and_then(|v| v.parse().ok()).unwrap_or(0);
    let threads: usize = std::env::var("VH_MIRI_THREADS").ok().and_then(|v| v.parse().ok()).unwrap_or(3);
    let (m, n, entries) = starved(case);
    let a: SpMat<i64> = SpMat::from_entries((m, n), entries.iter().cloned());
    let at: HashMap<(usize, usize), i64> = entries.iter().map(|&(i, j, v)| ((i, j), v)).collect();
    set_hook(Some(Box::new(|e: &Event| { LOG.lock().unwrap().push(e.clone()) })));
    let pool = rayon::ThreadPoolBuilder::new().num_threads(threads).build().unwrap();
    let pivs = pool.install(|| find_pivots(&a, PivotType::Rows, PivotCondition::One));
    set_hook(None);
    let log = LOG.lock().unwrap().clone();

    let mut msg = String::new();
    let rows: HashSet<usize> = pivs.iter().map(|p| p.0).collect();
    let cols: HashSet<usize> = pivs.iter().map(|p| p.1).collect();
    if rows.len() != pivs.len() || cols.len() != pivs.len() { msg = "repeated row or column".into() }
    if msg.is_empty() && pivs.iter().any(|p| at.get(p).map(|v| v.abs() != 1).unwrap_or(true)) { msg = "pivot entry is not +-1".into() }
    if msg.is_empty() {
        let r = pivs.len();
        let (mut up, mut lo) = (true, true);
        for k in 0..r { for l in 0..r { if at.contains_key(&(pivs[k].0, pivs[l].1)) { if k > l { up = false } if k < l { lo = false } } } }
        if !up && !lo { msg = "leading block not triangular".into() }
    }
    // trace: commits fresh and acyclic w.r.t. all earlier pivots
    let mut commits = vec![];
    let (mut retries, mut stale, mut base) = (0, 0, 0);
    for e in &log {
        match e {
            Event::PivPhaseDone { phase: 2, count } => base = *count,
            Event::PivRetry { .. } => retries += 1,
            Event::PivCommit { row, col, snapshot, index } => { commits.push((*row, *col, *snapshot, *index)); if snapshot < index { stale += 1 } }
            _ => {}
        }
    }
    if msg.is_empty() {
        let committed: HashSet<(usize, usize)> = commits.iter().map(|c| (c.0, c.1)).collect();
        let mut piv_row: HashMap<usize, usize> = pivs.iter().filter(|p| !committed.contains(p)).map(|&(i, j)| (j, i)).collect();
        let mut row_cols: HashMap<usize, Vec<usize>> = HashMap::new();
        for &(i, j) in at.keys() { row_cols.entry(i).or_default().push(j) }
        for (k, &(row, col, snapshot, index)) in commits.iter().enumerate() {
            if index != base + k || snapshot > index { msg = format!("commit {k}: index {index} / snapshot {snapshot}"); break }
            if piv_row.contains_key(&col) || piv_row.values().any(|&r| r == row) { msg = format!("commit {k} reuses a row or column"); break }
            let mut stack: Vec<usize> = row_cols[&row].iter().filter(|c| **c != col && piv_row.contains_key(c)).cloned().collect();
            let mut seen: HashSet<usize> = stack.iter().cloned().collect();
            let mut cyc = false;
            while let Some(c) = stack.pop() { for &c2 in &row_cols[&piv_row[&c]] { if c2 == col { cyc = true } if piv_row.contains_key(&c2) && seen.insert(c2) { stack.push(c2) } } }
            if cyc { msg = format!("commit {k} ({row},{col}) closes a cycle"); break }
            piv_row.insert(col, row);
        }
    }
    let mut h: u64 = 1469598103934665603;
    for c in &commits { for x in [c.0 as u64, c.1 as u64] { h ^= x; h = h.wrapping_mul(1099511628211) } }
    println!("MIRI-RESULT case={case} ok={} commits={} retries={retries} stale={stale} order={h:x}{}", if msg.is_empty() { 1 } else { 0 }, commits.len(), if msg.is_empty() { String::new() } else { format!(" msg={msg}") });
    std::process::exit(0); // rayon's pools are never joined
}
