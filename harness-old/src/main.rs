// vh-old — the library's first-generation Khovanov engine (explicit cube, cargo feature `old` of yui-kh)
// as a second, in-repo opinion for C01. It shares the algebra structure and the homology layer with the
// engine under test but none of the tangle / cobordism code.
//
// stdin : one JSON object per line {"pd": [[a,b,c,d],..], "neg": [bool,..], "h": i, "t": i, "reduced": bool, "ring": "Z"|"Q"|"F2"|"F3"}
// stdout: one JSON object per line {"total": {"<deg>": [rank, [torsion..]]}} or {"error": "..."}

use std::io::{BufRead, Write};

use yui::{EucRing, EucRingOps, Ratio, FF};
use yui_homology::{GridTrait, SummandTrait};
use yui_kh::kh::KhHomology;
use yui_link::{Crossing, CrossingType, Link};

fn total<R>(l: &Link, h: R, t: R, reduced: bool, tors: fn(&R) -> String) -> serde_json::Value
where R: EucRing, for<'x> &'x R: EucRingOps<R> {
    let kh = KhHomology::new(l, &h, &t, reduced);
    let mut m = serde_json::Map::new();
    for i in kh.support() {
        let s = &kh[i];
        if s.rank() > 0 || !s.tors().is_empty() {
            let mut ts: Vec<String> = s.tors().iter().map(tors).collect();
            ts.sort_by(|a, b| (a.len(), a).cmp(&(b.len(), b)));
            m.insert(i.to_string(), serde_json::json!([s.rank(), ts]));
        }
    }
    serde_json::json!({"total": m})
}

fn main() {
    std::panic::set_hook(Box::new(|_| {}));
    let stdin = std::io::stdin();
    let stdout = std::io::stdout();
    for line in stdin.lock().lines() {
        let Ok(line) = line else { break };
        if line.trim().is_empty() { continue }
        let res = std::panic::catch_unwind(|| -> serde_json::Value {
            let v: serde_json::Value = serde_json::from_str(&line).map_err(|e| e.to_string()).unwrap();
            let pd: Vec<[usize; 4]> = serde_json::from_value(v["pd"].clone()).unwrap();
            let neg: Vec<bool> = serde_json::from_value(v["neg"].clone()).unwrap();
            let (h, t) = (v["h"].as_i64().unwrap(), v["t"].as_i64().unwrap());
            let reduced = v["reduced"].as_bool().unwrap();
            let l = Link::new(pd.iter().zip(neg.iter()).map(|(c, &n)| Crossing::new(if n { CrossingType::Xm } else { CrossingType::X }, *c)).collect());
            match v["ring"].as_str().unwrap() {
                "Z" => total::<i64>(&l, h, t, reduced, |x| x.abs().to_string()),
                "Q" => total::<Ratio<i64>>(&l, Ratio::from(h), Ratio::from(t), reduced, |x| format!("?{x}")),
                "F2" => total::<FF<2>>(&l, FF::new(h.rem_euclid(2) as i32), FF::new(t.rem_euclid(2) as i32), reduced, |x| format!("?{x}")),
                _ => total::<FF<3>>(&l, FF::new(h.rem_euclid(3) as i32), FF::new(t.rem_euclid(3) as i32), reduced, |x| format!("?{x}")),
            }
        });
        let out = res.unwrap_or_else(|_| serde_json::json!({"error": "panic"}));
        let mut o = stdout.lock();
        let _ = writeln!(o, "{}", out);
        let _ = o.flush();
    }
}
