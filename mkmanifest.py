#!/usr/bin/env python3
"""Regenerate MANIFEST.json from checkcfg.py (claimed checks) + properties.jsonl."""
import json, os, subprocess, sys
V = os.path.dirname(os.path.abspath(__file__))
sys.path.insert(0, V)
from checkcfg import PROPS

ids = [json.loads(l)["id"] for l in open(os.path.join(V, "properties.jsonl"))]
hook_commits = subprocess.run(["git", "-C", "/repo", "log", "--format=%H", "--grep=^verif hooks:"],
                              stdout=subprocess.PIPE, text=True).stdout.split()
checks = []
for pid in ids:
    if pid not in PROPS:
        continue
    c = PROPS[pid]
    checks.append({
        "property_id": pid,
        "quick_cmd": f"./check {pid} quick",
        "thorough_cmd": f"./check {pid} thorough",
        "evidence_file": f"/verif/evidence/{pid}.json",
        "replay_cmd_template": f"./check {pid} --replay {{path}}",
        "engine": "vh",
        "level_claimed": {"category": "exploration", "text": c["level_text"], "design_ref": c.get("design_ref", f"DESIGN.md §5 {pid}")},
        "level_note": c["level_note"],
        "technique": c["technique"],
    })
na = [{"property_id": pid, "reason": "check not built yet in this round; runtime monitoring applies (see DESIGN.md §5) and the monitor is in progress"}
      for pid in ids if pid not in PROPS]
m = {
    "version": 1,
    "setup_cmd": "./check build",
    "hooks": {
        "guard": "cfg(yui_verif)",
        "enable": "RUSTFLAGS=\"--cfg yui_verif\" cargo build --release --offline (done by ./check for the harness crate /verif/harness, which path-depends on /repo's crates)",
        "baseline_off_cmd": "cd /repo && cargo test --workspace --no-fail-fast --offline",
        "source_commits": list(reversed(hook_commits)),
        "add_only": True,
    },
    "engines": [
        {"name": "vh", "path": "/verif/harness", "serves_properties": [c["property_id"] for c in checks],
         "kind_free_text": "Rust harness: seeded workload generators, independent reference models (oracles), online trace monitors over cfg(yui_verif) hook events; driven and aggregated by /verif/check (python)"},
    ],
    "checks": checks,
    "not_applicable": na,
    "notes": "Family: runtime monitoring. Every check executes the real library code from /repo's working tree and judges the observed results/events with an oracle; verdicts are three-valued (violated / held on explored / inconclusive). See DESIGN.md.",
}
json.dump(m, open(os.path.join(V, "MANIFEST.json"), "w"), indent=1)
print("claimed:", [c["property_id"] for c in checks], "not claimed:", [n["property_id"] for n in na])
