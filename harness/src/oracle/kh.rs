// Definition-level Khovanov complex (cube of resolutions) of a PD code over Z with integer Frobenius
// parameters (h, t):  A = Z[X]/(X^2 - hX - t), m(X,X) = hX + t,
// Delta(1) = 1(x)X + X(x)1 - h 1(x)1,  Delta(X) = X(x)X + t 1(x)1,
// edge sign (-1)^{#1's before the changed position}, homological degree |s| - n_-,
// quantum degree (#1 - #X) + |s| + n_+ - 2 n_-  (reduced: X on the marked circle, shifted by +1).

use std::collections::{BTreeMap, BTreeSet, HashMap};

use super::chain::SparseComplex;
use super::link::PD;

pub struct Cube {
    pub complex: SparseComplex,          // degrees 0..=n (cube degree |s|)
    pub qdeg: Vec<Vec<i64>>,             // quantum degree of every generator
    pub h_shift: i64,                    // homological degree = cube degree + h_shift ( = -n_- )
}

/// generator = (state, bitmask over the circles of that state (ordered by least edge): bit set = X)
pub fn build_cube(pd: &PD, h: i64, t: i64, reduced: bool, base_edge: Option<usize>) -> Result<Cube, String> {
    let n = pd.n();
    if n > 14 { return Err("too many crossings for the cube oracle".into()) }
    let signs = pd.signs(0)?;
    let (np, nm) = (signs.iter().filter(|&&s| s > 0).count() as i64, signs.iter().filter(|&&s| s < 0).count() as i64);
    let nstates = 1usize << n;
    // circles per state
    let mut circ: Vec<Vec<usize>> = Vec::with_capacity(nstates);          // sorted circle ids (least edge)
    let mut edge2circ: Vec<BTreeMap<usize, usize>> = Vec::with_capacity(nstates);
    for s in 0..nstates {
        let st: Vec<bool> = (0..n).map(|k| (s >> k) & 1 == 1).collect();
        let m = pd.circles(&st);
        let ids: BTreeSet<usize> = m.values().cloned().collect();
        circ.push(ids.into_iter().collect());
        edge2circ.push(m);
    }
    let base = if reduced { Some(base_edge.ok_or("reduced theory needs a base edge")?) } else { None };
    // enumerate generators per cube degree
    let mut index: HashMap<(usize, u64), (usize, usize)> = HashMap::new(); // (state, mask) -> (degree, position)
    let mut dims = vec![0usize; n + 1];
    let mut qdeg: Vec<Vec<i64>> = vec![vec![]; n + 1];
    for s in 0..nstates {
        let w = (s as u64).count_ones() as usize;
        let k = circ[s].len();
        if k > 40 { return Err("too many circles".into()) }
        let base_pos = base.map(|b| circ[s].iter().position(|c| *c == edge2circ[s][&b]).unwrap());
        for mask in 0..(1u64 << k) {
            if let Some(bp) = base_pos { if (mask >> bp) & 1 == 0 { continue } }
            let nx = mask.count_ones() as i64;
            let q = (k as i64 - nx) - nx + w as i64 + np - 2 * nm + if reduced { 1 } else { 0 };
            index.insert((s, mask), (w, dims[w]));
            dims[w] += 1;
            qdeg[w].push(q);
        }
    }
    if dims.iter().sum::<usize>() > 60_000 { return Err("cube too large for the oracle".into()) }
    let mut cx = SparseComplex::new(dims);
    for s in 0..nstates {
        for kx in 0..n {
            if (s >> kx) & 1 == 1 { continue }
            let s2 = s | (1 << kx);
            let sign: i64 = if ((s as u64) & ((1u64 << kx) - 1)).count_ones() % 2 == 0 { 1 } else { -1 };
            let (c1, c2) = (&circ[s], &circ[s2]);
            // circles touched by crossing kx
            let e = pd.x[kx];
            let touched1: BTreeSet<usize> = e.iter().map(|x| edge2circ[s][x]).collect();
            let touched2: BTreeSet<usize> = e.iter().map(|x| edge2circ[s2][x]).collect();
            let pos1 = |c: usize| c1.iter().position(|x| *x == c).unwrap();
            let pos2 = |c: usize| c2.iter().position(|x| *x == c).unwrap();
            // untouched circles keep their identity; map positions by the set of edges: a circle of s not touched equals a circle of s2 with the same least edge
            let w = (s as u64).count_ones() as usize;
            for mask in 0..(1u64 << c1.len()) {
                let Some(&(_, col)) = index.get(&(s, mask)) else { continue };
                // base mask for the target: copy labels of untouched circles
                let mut tgt_base = 0u64;
                for (i, c) in c1.iter().enumerate() { if !touched1.contains(c) && (mask >> i) & 1 == 1 { tgt_base |= 1 << pos2(*c) } }
                let mut outs: Vec<(u64, i64)> = vec![];
                if touched1.len() == 2 && touched2.len() == 1 {
                    // merge
                    let (a, b): (usize, usize) = { let mut it = touched1.iter(); (*it.next().unwrap(), *it.next().unwrap()) };
                    let (xa, xb) = ((mask >> pos1(a)) & 1 == 1, (mask >> pos1(b)) & 1 == 1);
                    let c = pos2(*touched2.iter().next().unwrap());
                    match (xa, xb) {
                        (false, false) => outs.push((tgt_base, 1)),
                        (true, false) | (false, true) => outs.push((tgt_base | (1 << c), 1)),
                        (true, true) => { outs.push((tgt_base | (1 << c), h)); outs.push((tgt_base, t)) }
                    }
                } else if touched1.len() == 1 && touched2.len() == 2 {
                    // split
                    let a = *touched1.iter().next().unwrap();
                    let xa = (mask >> pos1(a)) & 1 == 1;
                    let (c, d): (usize, usize) = { let mut it = touched2.iter(); (pos2(*it.next().unwrap()), pos2(*it.next().unwrap())) };
                    if !xa {
                        outs.push((tgt_base | (1 << d), 1));
                        outs.push((tgt_base | (1 << c), 1));
                        outs.push((tgt_base, -h));
                    } else {
                        outs.push((tgt_base | (1 << c) | (1 << d), 1));
                        outs.push((tgt_base, t));
                    }
                } else {
                    return Err(format!("crossing {kx} touches {} circles before and {} after", touched1.len(), touched2.len()))
                }
                for (m2, coef) in outs {
                    if coef == 0 { continue }
                    // in the reduced theory targets with 1 on the marked circle are outside the subcomplex;
                    // they can only arise with coefficient t (t = 0 is required) or -h terms that cancel? -> require t = 0
                    match index.get(&(s2, m2)) {
                        Some(&(_, row)) => cx.add_entry(w, row, col, sign * coef),
                        None => { if reduced { if coef != 0 { return Err("reduced theory: the X-subcomplex is not closed (needs t = 0)".into()) } } else { return Err("missing target generator".into()) } }
                    }
                }
            }
        }
    }
    Ok(Cube { complex: cx, qdeg, h_shift: -nm })
}

impl Cube {
    /// total homology per homological degree: (degree, rank, torsion orders)
    pub fn homology(&self) -> Result<Vec<(i64, usize, Vec<super::num::Z>)>, String> {
        let h = self.complex.homology_z()?;
        Ok(h.into_iter().enumerate().map(|(i, (r, t))| (i as i64 + self.h_shift, r, t)).collect())
    }

    pub fn homology_fp(&self, p: i64) -> Result<Vec<(i64, usize)>, String> {
        let h = self.complex.homology_fp(p)?;
        Ok(h.into_iter().enumerate().map(|(i, r)| (i as i64 + self.h_shift, r)).collect())
    }

    /// bigraded pieces (only meaningful for h = t = 0): q -> sub-complex
    pub fn split_by_q(&self) -> BTreeMap<i64, SparseComplex> {
        let l = self.complex.dims.len();
        let qs: BTreeSet<i64> = self.qdeg.iter().flat_map(|v| v.iter().cloned()).collect();
        let mut out = BTreeMap::new();
        for q in qs {
            let sel: Vec<Vec<usize>> = (0..l).map(|i| (0..self.complex.dims[i]).filter(|&a| self.qdeg[i][a] == q).collect()).collect();
            let pos: Vec<HashMap<usize, usize>> = sel.iter().map(|v| v.iter().enumerate().map(|(k, &a)| (a, k)).collect()).collect();
            let mut c = SparseComplex::new(sel.iter().map(|v| v.len()).collect());
            for i in 0..l { for (k, &a) in sel[i].iter().enumerate() { for (&b, &v) in &self.complex.d[i][a] {
                if let Some(&r) = pos.get(i + 1).and_then(|p| p.get(&b)) { c.add_entry(i, r, k, v) }
            } } }
            out.insert(q, c);
        }
        out
    }

    /// bigraded integral homology for h = t = 0: (i, j) -> (rank, torsion)
    pub fn bigraded(&self) -> Result<BTreeMap<(i64, i64), (usize, Vec<super::num::Z>)>, String> {
        let mut out = BTreeMap::new();
        for (q, c) in self.split_by_q() {
            for (i, (r, t)) in c.homology_z()?.into_iter().enumerate() {
                if r > 0 || !t.is_empty() { out.insert((i as i64 + self.h_shift, q), (r, t)); }
            }
        }
        Ok(out)
    }

    pub fn bigraded_fp(&self, p: i64) -> Result<BTreeMap<(i64, i64), usize>, String> {
        let mut out = BTreeMap::new();
        for (q, c) in self.split_by_q() {
            for (i, r) in c.homology_fp(p)?.into_iter().enumerate() { if r > 0 { out.insert((i as i64 + self.h_shift, q), r); } }
        }
        Ok(out)
    }
}
