// Homology of a complex given as sparse integer matrices: single-threaded unit-pivot cancellation
// (checked i64 arithmetic; overflow => Err, i.e. "oracle budget exceeded", never a verdict),
// then the textbook SNF on the small remainder. Also rank over F_p.

use std::collections::{BTreeMap, BTreeSet};

use super::linalg::OMat;
use super::num::*;

/// d[i][a] = column a of D_i : C_i -> C_{i+1}, as map row -> coefficient
#[derive(Clone, Debug)]
pub struct SparseComplex { pub dims: Vec<usize>, pub d: Vec<Vec<BTreeMap<usize, i64>>> }

fn modp(x: i64, p: i64) -> i64 { x.rem_euclid(p) }

fn inv_mod(a: i64, p: i64) -> i64 {
    // Fermat
    let (mut r, mut b, mut e) = (1i128, a.rem_euclid(p) as i128, (p - 2) as i128);
    while e > 0 { if e & 1 == 1 { r = r * b % p as i128 } b = b * b % p as i128; e >>= 1 }
    r as i64
}

impl SparseComplex {
    pub fn new(dims: Vec<usize>) -> Self {
        let l = dims.len();
        let d = (0..l).map(|i| vec![BTreeMap::new(); dims[i]]).collect();
        SparseComplex { dims, d }
    }

    pub fn add_entry(&mut self, i: usize, row: usize, col: usize, v: i64) {
        if v == 0 { return }
        let e = self.d[i][col].entry(row).or_insert(0);
        *e += v;
        if *e == 0 { self.d[i][col].remove(&row); }
    }

    pub fn check_dd(&self) -> Result<(), String> {
        for i in 0..self.dims.len().saturating_sub(1) {
            for a in 0..self.dims[i] {
                let mut acc: BTreeMap<usize, i128> = BTreeMap::new();
                for (&b, &v) in &self.d[i][a] { for (&c, &w) in &self.d[i + 1][b] { *acc.entry(c).or_insert(0) += v as i128 * w as i128 } }
                if acc.values().any(|x| *x != 0) { return Err(format!("d^2 != 0 at degree {i}, generator {a}")) }
            }
        }
        Ok(())
    }

    /// Cancel all pairs joined by a unit coefficient (p = None: units +-1 over Z; p = Some(q): any non-zero mod q).
    /// Returns the surviving generators per degree and the reduced matrices (dense, over Z or representatives mod p).
    pub fn reduce(&self, p: Option<i64>) -> Result<(Vec<usize>, Vec<OMat<Z>>), String> {
        let l = self.dims.len();
        // working copy: columns and the row index
        let mut cols: Vec<Vec<BTreeMap<usize, i64>>> = self.d.clone();
        if let Some(q) = p { for i in 0..l { for c in cols[i].iter_mut() { for v in c.values_mut() { *v = modp(*v, q) } c.retain(|_, v| *v != 0) } } }
        let mut alive: Vec<Vec<bool>> = self.dims.iter().map(|&n| vec![true; n]).collect();
        for i in 0..l.saturating_sub(1) {
            // row index of D_i
            let mut rows: Vec<BTreeSet<usize>> = vec![BTreeSet::new(); self.dims[i + 1]];
            for a in 0..self.dims[i] { if alive[i][a] { for &b in cols[i][a].keys() { rows[b].insert(a); } } }
            loop {
                // find a unit entry
                let mut piv: Option<(usize, usize, i64)> = None;
                'find: for a in 0..self.dims[i] {
                    if !alive[i][a] { continue }
                    for (&b, &v) in &cols[i][a] {
                        let unit = match p { None => v == 1 || v == -1, Some(_) => v != 0 };
                        if unit && alive[i + 1][b] { piv = Some((a, b, v)); break 'find }
                    }
                }
                let Some((a, b, u)) = piv else { break };
                let col_a = cols[i][a].clone();
                let others: Vec<usize> = rows[b].iter().cloned().filter(|&x| x != a).collect();
                for a2 in others {
                    let v = *cols[i][a2].get(&b).unwrap_or(&0);
                    if v == 0 { continue }
                    // col[a2] -= (v / u) col[a]
                    let f = match p { None => v.checked_mul(u).ok_or("overflow")?, Some(q) => modp(v * inv_mod(u, q), q) };
                    for (&r, &w) in &col_a {
                        let delta = match p { None => f.checked_mul(w).ok_or("overflow")?, Some(q) => modp(f * w, q) };
                        let e = cols[i][a2].entry(r).or_insert(0);
                        *e = match p { None => e.checked_sub(delta).ok_or("overflow")?, Some(q) => modp(*e - delta, q) };
                        if *e == 0 { cols[i][a2].remove(&r); rows[r].remove(&a2); } else { rows[r].insert(a2); }
                    }
                }
                alive[i][a] = false;
                alive[i + 1][b] = false;
                for &r in col_a.keys() { rows[r].remove(&a); }
                cols[i][a].clear();
                // b leaves C_{i+1}: its own boundary column disappears, and (by d^2 = 0) nothing else hits it any more
                if i + 1 < l { cols[i + 1][b].clear(); }
                // a leaves C_i: entries of D_{i-1} in row a disappear
                if i > 0 { for c in cols[i - 1].iter_mut() { c.remove(&a); } }
                for a3 in rows[b].clone() { cols[i][a3].remove(&b); }
                rows[b].clear();
            }
        }
        // dense remainder
        let surv: Vec<Vec<usize>> = (0..l).map(|i| (0..self.dims[i]).filter(|&a| alive[i][a]).collect()).collect();
        let pos: Vec<BTreeMap<usize, usize>> = surv.iter().map(|v| v.iter().enumerate().map(|(k, &a)| (a, k)).collect()).collect();
        let mut mats = vec![];
        for i in 0..l.saturating_sub(1) {
            let mut m = OMat::<Z>::zero(surv[i + 1].len(), surv[i].len());
            for (k, &a) in surv[i].iter().enumerate() { for (&b, &v) in &cols[i][a] { if let Some(&r) = pos[i + 1].get(&b) { m.set(r, k, z(v)) } } }
            mats.push(m);
        }
        Ok((surv.iter().map(|v| v.len()).collect(), mats))
    }

    /// integral homology: (rank, invariant factors > 1) per degree
    pub fn homology_z(&self) -> Result<Vec<(usize, Vec<Z>)>, String> {
        let (dims, mats) = self.reduce(None)?;
        if dims.iter().sum::<usize>() > 600 { return Err("remainder too large".into()) }
        let facs: Vec<Vec<Z>> = mats.iter().map(|m| m.try_snf_diag(3000)).collect::<Option<Vec<_>>>().ok_or("coefficient explosion in the textbook SNF")?;
        let l = dims.len();
        Ok((0..l).map(|i| {
            let r_in = if i > 0 { facs[i - 1].len() } else { 0 };
            let r_out = if i + 1 < l { facs[i].len() } else { 0 };
            let tors: Vec<Z> = if i > 0 { facs[i - 1].iter().filter(|x| !x.is_unit()).map(|x| x.size()).collect() } else { vec![] };
            (dims[i] - r_in - r_out, tors)
        }).collect())
    }

    /// dimension of homology over F_p per degree
    pub fn homology_fp(&self, p: i64) -> Result<Vec<usize>, String> {
        let (dims, mats) = self.reduce(Some(p))?;
        // after cancelling every non-zero entry the remaining matrices are zero
        if mats.iter().any(|m| !m.is_zero()) { return Err("oracle: F_p reduction left non-zero entries".into()) }
        Ok(dims)
    }
}
