// Exact Gram-Schmidt over Q(sqrt D) (D = -1: Gaussian, D = -3: Eisenstein; integers are embedded
// with zero second coordinate) and the operational definition of "LLL-reduced".

use super::linalg::OMat;
use super::num::*;

/// element x + y w of Q(w), w as in QI<D>
#[derive(Clone, PartialEq, Debug)]
pub struct QF<const D: i32>(pub Q, pub Q);

impl<const D: i32> QF<D> {
    fn w2() -> (Q, Q) {
        if D.rem_euclid(4) == 1 { (Q::int(z(((D - 1) / 4) as i64)), Q::int(z(1))) } else { (Q::int(z(D as i64)), Q::int(z(0))) }
    }
    pub fn from_qi(a: &QI<D>) -> Self { QF(Q::int(a.0.clone()), Q::int(a.1.clone())) }
    pub fn zero() -> Self { QF(Q::o0(), Q::o0()) }
    pub fn is_zero(&self) -> bool { self.0.is0() && self.1.is0() }
    pub fn add(&self, o: &Self) -> Self { QF(self.0.add(&o.0), self.1.add(&o.1)) }
    pub fn sub(&self, o: &Self) -> Self { QF(self.0.sub(&o.0), self.1.sub(&o.1)) }
    pub fn mul(&self, o: &Self) -> Self {
        let (p, q) = Self::w2();
        let bd = self.1.mul(&o.1);
        QF(self.0.mul(&o.0).add(&bd.mul(&p)), self.0.mul(&o.1).add(&self.1.mul(&o.0)).add(&bd.mul(&q)))
    }
    pub fn conj(&self) -> Self {
        let (_, q) = Self::w2();
        QF(self.0.add(&self.1.mul(&q)), self.1.neg())
    }
    /// x conj(x), a non-negative rational for D < 0
    pub fn norm(&self) -> Q {
        let n = self.mul(&self.conj());
        assert!(n.1.is0());
        n.0
    }
    pub fn scale(&self, c: &Q) -> Self { QF(self.0.mul(c), self.1.mul(c)) }
    pub fn div_by_rational(&self, c: &Q) -> Self { let i = c.inv().expect("division by zero in Gram-Schmidt"); self.scale(&i) }
}

fn hdot<const D: i32>(a: &[QF<D>], b: &[QF<D>]) -> QF<D> {
    let mut r = QF::zero();
    for (x, y) in a.iter().zip(b.iter()) { r = r.add(&x.mul(&y.conj())) }
    r
}

/// Is the row basis `b` LLL-reduced? size-reduced: every mu_{ij}, written in the ring's division basis
/// ((1, i) for D = -1; (1, w-1) for D = -3), has both coordinates in [-1/2, 1/2] (ties allowed);
/// Lovasz: |b*_k|^2 >= (alpha - |mu_{k,k-1}|^2) |b*_{k-1}|^2.
pub fn check_lll_reduced<const D: i32>(b: &OMat<QI<D>>, alpha: &Q) -> Result<(), String> {
    let m = b.m;
    let rows: Vec<Vec<QF<D>>> = (0..m).map(|i| (0..b.n).map(|j| QF::from_qi(b.at(i, j))).collect()).collect();
    let mut ortho: Vec<Vec<QF<D>>> = vec![];
    let mut norms: Vec<Q> = vec![];
    let mut mu: Vec<Vec<QF<D>>> = vec![vec![QF::zero(); m]; m];
    let half = Q::new(z(1), z(2));
    for i in 0..m {
        let mut v = rows[i].clone();
        for j in 0..i {
            if norms[j].is0() { return Err(format!("rows are linearly dependent (b*_{j} = 0)")) }
            let c = hdot(&rows[i], &ortho[j]).div_by_rational(&norms[j]);
            for k in 0..v.len() { v[k] = v[k].sub(&c.mul(&ortho[j][k])) }
            mu[i][j] = c;
        }
        let nn = hdot(&v, &v);
        assert!(nn.1.is0());
        norms.push(nn.0);
        ortho.push(v);
    }
    if let Some(j) = (0..m).find(|&j| norms[j].is0()) { return Err(format!("rows are linearly dependent (b*_{j} = 0)")) }
    for i in 0..m {
        for j in 0..i {
            let c = &mu[i][j];
            // coordinates in the division basis
            let (x, y) = if D == -3 { (c.0.add(&c.1), c.1.clone()) } else { (c.0.clone(), c.1.clone()) };
            if x.abs().cmp(&half) == std::cmp::Ordering::Greater || y.abs().cmp(&half) == std::cmp::Ordering::Greater {
                return Err(format!("not size-reduced: mu[{i}][{j}] has coordinates ({}, {}) outside [-1/2, 1/2]", x.show(), y.show()))
            }
        }
    }
    for k in 1..m {
        let lhs = norms[k].clone();
        let rhs = alpha.sub(&mu[k][k - 1].norm()).mul(&norms[k - 1]);
        if lhs.cmp(&rhs) == std::cmp::Ordering::Less {
            return Err(format!("Lovasz condition fails at k = {k}: |b*_k|^2 = {} < (alpha - |mu|^2)|b*_(k-1)|^2 = {}", lhs.show(), rhs.show()))
        }
    }
    Ok(())
}
