// Dense exact linear algebra over the oracle's own number types.

use super::num::*;

#[derive(Clone, PartialEq, Debug)]
pub struct OMat<T> { pub m: usize, pub n: usize, pub d: Vec<T> } // row major

impl<T: ORing> OMat<T> {
    pub fn zero(m: usize, n: usize) -> Self { OMat { m, n, d: vec![T::o0(); m * n] } }
    pub fn id(n: usize) -> Self {
        let mut a = Self::zero(n, n);
        for i in 0..n { a.d[i * n + i] = T::o1() }
        a
    }
    pub fn from_fn(m: usize, n: usize, mut f: impl FnMut(usize, usize) -> T) -> Self {
        let mut d = Vec::with_capacity(m * n);
        for i in 0..m { for j in 0..n { d.push(f(i, j)) } }
        OMat { m, n, d }
    }
    pub fn at(&self, i: usize, j: usize) -> &T { &self.d[i * self.n + j] }
    pub fn set(&mut self, i: usize, j: usize, v: T) { let n = self.n; self.d[i * n + j] = v }
    pub fn mul(&self, o: &Self) -> Self {
        assert_eq!(self.n, o.m, "oracle product shape mismatch");
        let mut r = Self::zero(self.m, o.n);
        for i in 0..self.m {
            for k in 0..self.n {
                let a = self.at(i, k);
                if a.is0() { continue }
                for j in 0..o.n {
                    let b = o.at(k, j);
                    if b.is0() { continue }
                    let idx = i * o.n + j;
                    r.d[idx] = r.d[idx].add(&a.mul(b));
                }
            }
        }
        r
    }
    pub fn add(&self, o: &Self) -> Self {
        assert_eq!((self.m, self.n), (o.m, o.n));
        OMat { m: self.m, n: self.n, d: self.d.iter().zip(o.d.iter()).map(|(a, b)| a.add(b)).collect() }
    }
    pub fn sub(&self, o: &Self) -> Self {
        assert_eq!((self.m, self.n), (o.m, o.n));
        OMat { m: self.m, n: self.n, d: self.d.iter().zip(o.d.iter()).map(|(a, b)| a.sub(b)).collect() }
    }
    pub fn neg(&self) -> Self { OMat { m: self.m, n: self.n, d: self.d.iter().map(|a| a.neg()).collect() } }
    pub fn transpose(&self) -> Self { Self::from_fn(self.n, self.m, |i, j| self.at(j, i).clone()) }
    pub fn is_zero(&self) -> bool { self.d.iter().all(|x| x.is0()) }
    pub fn is_id(&self) -> bool { self.m == self.n && (0..self.m).all(|i| (0..self.n).all(|j| if i == j { self.at(i, j).is1() } else { self.at(i, j).is0() })) }
    pub fn is_diag(&self) -> bool { (0..self.m).all(|i| (0..self.n).all(|j| i == j || self.at(i, j).is0())) }
    pub fn swap_rows(&mut self, i: usize, j: usize) { if i != j { for k in 0..self.n { self.d.swap(i * self.n + k, j * self.n + k) } } }
    pub fn swap_cols(&mut self, i: usize, j: usize) { if i != j { for k in 0..self.m { self.d.swap(k * self.n + i, k * self.n + j) } } }
    /// row_j += c * row_i
    pub fn add_row(&mut self, i: usize, j: usize, c: &T) { for k in 0..self.n { let v = self.at(j, k).add(&c.mul(self.at(i, k))); self.set(j, k, v) } }
    pub fn add_col(&mut self, i: usize, j: usize, c: &T) { for k in 0..self.m { let v = self.at(k, j).add(&c.mul(self.at(k, i))); self.set(k, j, v) } }
    pub fn submat(&self, r0: usize, r1: usize, c0: usize, c1: usize) -> Self { Self::from_fn(r1 - r0, c1 - c0, |i, j| self.at(r0 + i, c0 + j).clone()) }
    pub fn max_bits(&self) -> u64 { self.d.iter().map(|x| x.bits()).max().unwrap_or(0) }
    pub fn show(&self) -> String {
        let rows: Vec<String> = (0..self.m).map(|i| format!("[{}]", (0..self.n).map(|j| self.at(i, j).show()).collect::<Vec<_>>().join(", "))).collect();
        format!("{}x{} [{}]", self.m, self.n, rows.join(", "))
    }
    /// determinant by Laplace expansion (small matrices only; ring operations only)
    pub fn det_laplace(&self) -> T {
        assert_eq!(self.m, self.n);
        let n = self.n;
        if n == 0 { return T::o1() }
        if n == 1 { return self.at(0, 0).clone() }
        let mut r = T::o0();
        for j in 0..n {
            if self.at(0, j).is0() { continue }
            let minor = Self::from_fn(n - 1, n - 1, |a, b| self.at(a + 1, if b < j { b } else { b + 1 }).clone());
            let t = self.at(0, j).mul(&minor.det_laplace());
            r = if j % 2 == 0 { r.add(&t) } else { r.sub(&t) };
        }
        r
    }
}

impl<T: OEuc> OMat<T> {
    /// Textbook Smith normal form (diagonal only): the non-zero invariant factors, each dividing the next, up to units.
    pub fn snf_diag(&self) -> Vec<T> { self.try_snf_diag(u64::MAX).expect("unbounded") }

    /// same, but gives up (None) as soon as an entry grows beyond `max_bits` bits: the textbook algorithm
    /// can suffer coefficient explosion; a budget overrun is an oracle limit, never a verdict
    pub fn try_snf_diag(&self, max_bits: u64) -> Option<Vec<T>> {
        let mut a = self.clone();
        let (m, n) = (a.m, a.n);
        let mut res = vec![];
        let mut t = 0;
        while t < m.min(n) {
            // smallest non-zero entry of the remaining block
            let mut best: Option<(usize, usize, Z)> = None;
            for i in t..m { for j in t..n {
                let x = a.at(i, j);
                if x.is0() { continue }
                let s = x.size();
                if best.as_ref().map(|b| s < b.2).unwrap_or(true) { best = Some((i, j, s)) }
            } }
            let Some((pi, pj, _)) = best else { break };
            a.swap_rows(t, pi);
            a.swap_cols(t, pj);
            let mut rounds = 0u64;
            'outer: loop {
                rounds += 1;
                if max_bits != u64::MAX && rounds % 8 == 0 && a.max_bits() > max_bits { return None }
                // minimal-pivot strategy: always continue with the smallest non-zero entry of the remaining block
                {
                    let mut best: Option<(usize, usize, Z)> = None;
                    for i in t..m { for j in t..n {
                        let x = a.at(i, j);
                        if x.is0() { continue }
                        let s = x.size();
                        if best.as_ref().map(|b| s < b.2).unwrap_or(true) { best = Some((i, j, s)) }
                    } }
                    if let Some((pi, pj, _)) = best { a.swap_rows(t, pi); a.swap_cols(t, pj); }
                }
                for i in t + 1..m {
                    if a.at(i, t).is0() { continue }
                    let (q, r) = a.at(i, t).divrem(a.at(t, t));
                    a.add_row(t, i, &q.neg());
                    debug_assert!(a.at(i, t) == &r);
                    if !r.is0() { a.swap_rows(t, i); continue 'outer }
                }
                for j in t + 1..n {
                    if a.at(t, j).is0() { continue }
                    let (q, r) = a.at(t, j).divrem(a.at(t, t));
                    a.add_col(t, j, &q.neg());
                    debug_assert!(a.at(t, j) == &r);
                    if !r.is0() { a.swap_cols(t, j); continue 'outer }
                }
                // pivot must divide the rest of the block
                for i in t + 1..m { for j in t + 1..n {
                    if !a.at(t, t).divides(a.at(i, j)) {
                        a.add_row(i, t, &T::o1());
                        continue 'outer
                    }
                } }
                break
            }
            res.push(a.at(t, t).clone());
            t += 1;
            if max_bits != u64::MAX && a.max_bits() > max_bits { return None }
        }
        Some(res)
    }
    pub fn rank(&self) -> usize { self.snf_diag().len() }
    /// gcds of all k x k minors, k = 1..min(m,n) (tiny matrices only)
    pub fn minor_gcds(&self) -> Vec<T> {
        let r = self.m.min(self.n);
        let mut out = vec![];
        for k in 1..=r {
            let mut g = T::o0();
            for rows in combos(self.m, k) { for cols in combos(self.n, k) {
                let sub = Self::from_fn(k, k, |i, j| self.at(rows[i], cols[j]).clone());
                g = T::gcd(&g, &sub.det_laplace());
            } }
            out.push(g);
        }
        out
    }
}

pub fn combos(n: usize, k: usize) -> Vec<Vec<usize>> {
    fn rec(start: usize, n: usize, k: usize, cur: &mut Vec<usize>, out: &mut Vec<Vec<usize>>) {
        if cur.len() == k { out.push(cur.clone()); return }
        for i in start..n { cur.push(i); rec(i + 1, n, k, cur, out); cur.pop(); }
    }
    let mut out = vec![];
    rec(0, n, k, &mut vec![], &mut out);
    out
}
