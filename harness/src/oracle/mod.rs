// Independent reference models. Nothing in here uses a yui type.

pub mod num;
pub mod linalg;
pub mod gs;

pub fn selftest() -> bool {
    true
}
