// Independent reference models. Nothing in here uses a yui type.

pub mod num;
pub mod linalg;
pub mod gs;
pub mod link;
pub mod chain;
pub mod kh;

use std::collections::BTreeMap;

use num_bigint::BigInt;
use num_traits::One;

use linalg::OMat;
use link::PD;
use num::*;

fn euler_of_cube(c: &kh::Cube) -> link::Laurent {
    // graded Euler characteristic of the chain groups (equals that of homology)
    let mut e = link::Laurent::new();
    for (i, qs) in c.qdeg.iter().enumerate() {
        let sign = if (i as i64 + c.h_shift).rem_euclid(2) == 0 { BigInt::one() } else { -BigInt::one() };
        for q in qs { link::laurent_add(&mut e, *q, sign.clone()) }
    }
    e
}

/// Oracle vs oracle and oracle vs published data. A failure here is a harness error, never a verdict.
pub fn selftest() -> bool {
    let mut ok = true;
    let mut check = |name: &str, cond: bool| { if !cond { eprintln!("SELFTEST FAILED: {name}"); ok = false } };

    // --- published Khovanov homology of the left-handed trefoil 3_1 (Knot Atlas PD code)
    let trefoil = PD::new(vec![[1, 4, 2, 5], [3, 6, 4, 1], [5, 2, 6, 3]]);
    check("trefoil valid", trefoil.validate().is_ok());
    check("trefoil writhe", trefoil.writhe() == -3);
    match kh::build_cube(&trefoil, 0, 0, false, None).and_then(|c| { c.complex.check_dd()?; Ok((c.bigraded()?, euler_of_cube(&c))) }) {
        Ok((t, chi)) => {
            let mut exp: BTreeMap<(i64, i64), (usize, Vec<Z>)> = BTreeMap::new();
            exp.insert((0, -1), (1, vec![]));
            exp.insert((0, -3), (1, vec![]));
            exp.insert((-2, -5), (1, vec![]));
            exp.insert((-3, -9), (1, vec![]));
            exp.insert((-2, -7), (0, vec![z(2)]));
            check("trefoil Kh table", t == exp);
            check("trefoil chi = Jones", trefoil.jones().map(|j| j == chi).unwrap_or(false));
            let mut j = link::Laurent::new();
            for (e, c) in [(-1, 1), (-3, 1), (-5, 1), (-9, -1)] { j.insert(e, BigInt::from(c)); }
            check("trefoil Jones published", trefoil.jones().map(|x| x == j).unwrap_or(false));
        }
        Err(e) => check(&format!("trefoil cube: {e}"), false),
    }
    // reduced trefoil: Z at (0,-2), (-2,-6), (-3,-8)
    match kh::build_cube(&trefoil, 0, 0, true, Some(1)).and_then(|c| c.bigraded()) {
        Ok(t) => {
            let mut exp: BTreeMap<(i64, i64), (usize, Vec<Z>)> = BTreeMap::new();
            for k in [(0, -2), (-2, -6), (-3, -8)] { exp.insert(k, (1, vec![])); }
            check("reduced trefoil", t == exp);
        }
        Err(e) => check(&format!("reduced trefoil cube: {e}"), false),
    }
    // Lee / Bar-Natan deformations of the trefoil: total rank 2
    for (h, t) in [(1i64, 0i64), (0, 1), (2, 3)] {
        match kh::build_cube(&trefoil, h, t, false, None).and_then(|c| { c.complex.check_dd()?; c.homology() }) {
            Ok(hm) => check(&format!("trefoil deformation ({h},{t}) rank 2"), hm.iter().map(|x| x.1).sum::<usize>() == 2),
            Err(e) => check(&format!("deformed cube: {e}"), false),
        }
    }
    // Hopf link, figure eight, a kinked unknot: d^2 = 0, chi = Jones, universal coefficients over F2
    for (name, pd) in [
        ("hopf", PD::new(vec![[4, 1, 3, 2], [2, 3, 1, 4]])),
        ("figure8", PD::new(vec![[4, 2, 5, 1], [8, 6, 1, 5], [6, 3, 7, 4], [2, 7, 3, 8]])),
        ("kink", PD::new(vec![[1, 2, 2, 1]])),
    ] {
        check(&format!("{name} valid"), pd.validate().is_ok());
        match kh::build_cube(&pd, 0, 0, false, None) {
            Ok(c) => {
                check(&format!("{name} d^2"), c.complex.check_dd().is_ok());
                check(&format!("{name} chi = Jones"), pd.jones().map(|j| j == euler_of_cube(&c)).unwrap_or(false));
                if let (Ok(zt), Ok(f2)) = (c.bigraded(), c.bigraded_fp(2)) {
                    let mut exp: BTreeMap<(i64, i64), usize> = BTreeMap::new();
                    for (&(i, j), (r, t)) in &zt {
                        let ev = t.iter().filter(|x| (*x % z(2)) == z(0)).count();
                        if r + ev > 0 { *exp.entry((i, j)).or_insert(0) += r + ev }
                        if ev > 0 { *exp.entry((i - 1, j)).or_insert(0) += ev }
                    }
                    check(&format!("{name} universal coefficients F2"), exp == f2);
                } else { check(&format!("{name} homology"), false) }
            }
            Err(e) => check(&format!("{name} cube: {e}"), false),
        }
    }
    check("kinked unknot Jones", PD::new(vec![[1, 2, 2, 1]]).jones().map(|j| j.len() == 2 && j.get(&1) == Some(&BigInt::one()) && j.get(&-1) == Some(&BigInt::one())).unwrap_or(false));
    // braid closure: sigma_1^3 on two strands is a trefoil with writhe 3, one component
    match link::braid_closure(2, &[1, 1, 1]) {
        Ok(b) => { check("braid trefoil valid", b.validate().is_ok()); check("braid trefoil writhe", b.writhe() == 3); check("braid trefoil comps", b.components().len() == 1) }
        Err(e) => check(&format!("braid closure: {e}"), false),
    }
    // --- SNF oracle against gcds of minors
    let m = OMat::<Z> { m: 3, n: 3, d: [2, 4, 4, -6, 6, 12, 10, -4, -16].iter().map(|&x| z(x)).collect() };
    let f = m.snf_diag();
    let g = m.minor_gcds();
    let mut prod = z(1);
    let mut good = f.len() == 3;
    for i in 0..f.len().min(3) { prod = prod * &f[i]; good &= prod.associate(&g[i]); if i + 1 < f.len() { good &= f[i].divides(&f[i + 1]) } }
    check("snf vs minors", good);
    // Gaussian integers: divrem decreases the norm; gcd(2, 1+i) ~ 1+i
    let (a, b) = (QI::<-1>(z(2), z(0)), QI::<-1>(z(1), z(1)));
    check("gauss gcd", QI::<-1>::gcd(&a, &b).associate(&b));
    let (q, r) = QI::<-3>(z(7), z(5)).divrem(&QI::<-3>(z(2), z(-3)));
    check("eisenstein divrem", QI::<-3>(z(2), z(-3)).mul(&q).add(&r) == QI::<-3>(z(7), z(5)) && r.size() < QI::<-3>(z(2), z(-3)).size());
    if ok { eprintln!("selftest ok") }
    ok
}
