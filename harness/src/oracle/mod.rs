// Independent reference models. Nothing in here uses a yui type.

pub fn selftest() -> bool {
    true
}
