// Independent reference models. Nothing in here uses a yui type.

pub mod num;
pub mod linalg;

pub fn selftest() -> bool {
    true
}
