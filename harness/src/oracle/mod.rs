// Independent reference models. Nothing in here uses a yui type.

pub mod num;

pub fn selftest() -> bool {
    true
}
