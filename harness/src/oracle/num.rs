// Own number types for the reference models. Deliberately small and slow.
// Base: num_bigint::BigInt (third party, trusted). No yui type in here.

use num_bigint::BigInt;
use num_integer::Integer as _;
use num_traits::{One, Signed, Zero};
use std::fmt::Debug;

pub type Z = BigInt;

pub fn z(i: i64) -> Z { Z::from(i) }

/// floor division with non-negative remainder for positive divisor
pub fn floor_divmod(a: &Z, b: &Z) -> (Z, Z) {
    a.div_mod_floor(b)
}

/// a nearest integer to a/b (b != 0), ties toward +inf; only used inside oracles
pub fn round_div(a: &Z, b: &Z) -> Z {
    let (a, b) = if b.is_negative() { (-a, -b) } else { (a.clone(), b.clone()) };
    let two = z(2);
    (&a * &two + &b).div_floor(&(&b * &two))
}

/// is q a nearest integer to a/b, i.e. 2|a - q b| <= |b| ?
pub fn is_nearest(a: &Z, b: &Z, q: &Z) -> bool {
    let d = (a - q * b).abs() * z(2);
    d <= b.abs()
}

pub trait ORing: Clone + PartialEq + Debug + Send + Sync + 'static {
    fn o0() -> Self;
    fn o1() -> Self;
    fn add(&self, o: &Self) -> Self;
    fn sub(&self, o: &Self) -> Self;
    fn mul(&self, o: &Self) -> Self;
    fn neg(&self) -> Self;
    fn is0(&self) -> bool { *self == Self::o0() }
    fn is1(&self) -> bool { *self == Self::o1() }
    fn show(&self) -> String { format!("{:?}", self) }
    fn from_i64(i: i64) -> Self;
    /// rough size in bits (used only to keep workloads bounded)
    fn bits(&self) -> u64 { 0 }
    fn pow(&self, n: usize) -> Self {
        let mut r = Self::o1();
        for _ in 0..n { r = r.mul(self) }
        r
    }
}

/// Euclidean domain with its own division (used by the textbook SNF) and
/// its own notion of "normalised associate".
pub trait OEuc: ORing {
    /// exact or Euclidean division: a = q b + r with r = 0 or size(r) < size(b); b != 0
    fn divrem(&self, b: &Self) -> (Self, Self);
    /// Euclidean size as an integer (|a|, N(a), 2^deg ... only compared)
    fn size(&self) -> Z;
    fn is_unit(&self) -> bool;
    /// the canonical associate according to the property's convention for this ring
    fn is_normalized(&self) -> bool;
    /// all units (finite unit groups) or a few of them
    fn unit_samples() -> Vec<Self>;
    fn divides(&self, o: &Self) -> bool {
        if self.is0() { return o.is0() }
        o.divrem(self).1.is0()
    }
    fn associate(&self, o: &Self) -> bool {
        self.divides(o) && o.divides(self)
    }
    fn gcd(a: &Self, b: &Self) -> Self {
        let (mut x, mut y) = (a.clone(), b.clone());
        while !y.is0() {
            let r = x.divrem(&y).1;
            x = y;
            y = r;
        }
        x
    }
}

// ------------------------------------------------------------------ Z

impl ORing for Z {
    fn o0() -> Self { Zero::zero() }
    fn o1() -> Self { One::one() }
    fn add(&self, o: &Self) -> Self { self + o }
    fn sub(&self, o: &Self) -> Self { self - o }
    fn mul(&self, o: &Self) -> Self { self * o }
    fn neg(&self) -> Self { -self }
    fn from_i64(i: i64) -> Self { Z::from(i) }
    fn bits(&self) -> u64 { BigInt::bits(self) }
    fn show(&self) -> String { self.to_string() }
}

impl OEuc for Z {
    fn divrem(&self, b: &Self) -> (Self, Self) {
        // balanced remainder
        let q = round_div(self, b);
        let r = self - &q * b;
        (q, r)
    }
    fn size(&self) -> Z { self.abs() }
    fn is_unit(&self) -> bool { self.abs().is_one() }
    fn is_normalized(&self) -> bool { !self.is_negative() }
    fn unit_samples() -> Vec<Self> { vec![z(1), z(-1)] }
}

// ------------------------------------------------------------------ F_p

#[derive(Clone, Copy, PartialEq, Eq, Debug, Hash)]
pub struct Fp<const P: u64>(pub u64);

impl<const P: u64> Fp<P> {
    pub fn new(i: i128) -> Self { Fp(i.rem_euclid(P as i128) as u64) }
    pub fn from_z(a: &Z) -> Self {
        let r = a.mod_floor(&Z::from(P));
        let (_, d) = r.to_u64_digits();
        Fp(d.first().copied().unwrap_or(0))
    }
    pub fn inv(&self) -> Option<Self> {
        if self.0 == 0 { return None }
        // Fermat
        let mut r = 1u128; let mut b = self.0 as u128; let mut e = P - 2;
        while e > 0 { if e & 1 == 1 { r = r * b % P as u128 } b = b * b % P as u128; e >>= 1 }
        Some(Fp(r as u64))
    }
}

impl<const P: u64> ORing for Fp<P> {
    fn o0() -> Self { Fp(0) }
    fn o1() -> Self { Fp(1 % P) }
    fn add(&self, o: &Self) -> Self { Fp(((self.0 as u128 + o.0 as u128) % P as u128) as u64) }
    fn sub(&self, o: &Self) -> Self { Fp(((self.0 as u128 + P as u128 - o.0 as u128) % P as u128) as u64) }
    fn mul(&self, o: &Self) -> Self { Fp(((self.0 as u128 * o.0 as u128) % P as u128) as u64) }
    fn neg(&self) -> Self { Fp((P - self.0) % P) }
    fn from_i64(i: i64) -> Self { Fp::new(i as i128) }
    fn show(&self) -> String { self.0.to_string() }
}

impl<const P: u64> OEuc for Fp<P> {
    fn divrem(&self, b: &Self) -> (Self, Self) { (self.mul(&b.inv().expect("division by zero in oracle")), Fp(0)) }
    fn size(&self) -> Z { if self.0 == 0 { z(0) } else { z(1) } }
    fn is_unit(&self) -> bool { self.0 != 0 }
    fn is_normalized(&self) -> bool { self.0 <= 1 }
    fn unit_samples() -> Vec<Self> { let mut v = vec![Fp(1 % P), Fp(P - 1), Fp(2 % P), Fp((P + 1) / 2 % P), Fp(3 % P)]; v.retain(|x| x.0 != 0); v.dedup(); v }
}

// ------------------------------------------------------------------ Q

#[derive(Clone, PartialEq, Eq, Debug, Hash)]
pub struct Q { pub n: Z, pub d: Z } // lowest terms, d > 0

impl Q {
    pub fn new(n: Z, d: Z) -> Self {
        assert!(!d.is_zero());
        let g = n.gcd(&d);
        let (mut n, mut d) = if g.is_zero() { (n, d) } else { (&n / &g, &d / &g) };
        if d.is_negative() { n = -n; d = -d }
        if n.is_zero() { d = Z::one() }
        Q { n, d }
    }
    pub fn int(n: Z) -> Self { Q { n, d: Z::one() } }
    pub fn inv(&self) -> Option<Self> { if self.n.is_zero() { None } else { Some(Q::new(self.d.clone(), self.n.clone())) } }
    pub fn cmp(&self, o: &Q) -> std::cmp::Ordering { (&self.n * &o.d).cmp(&(&o.n * &self.d)) }
    pub fn abs(&self) -> Q { Q { n: self.n.abs(), d: self.d.clone() } }
    pub fn div(&self, o: &Q) -> Q { self.mul(&o.inv().expect("Q division by zero")) }
}

impl ORing for Q {
    fn o0() -> Self { Q::int(Z::zero()) }
    fn o1() -> Self { Q::int(Z::one()) }
    fn add(&self, o: &Self) -> Self { Q::new(&self.n * &o.d + &o.n * &self.d, &self.d * &o.d) }
    fn sub(&self, o: &Self) -> Self { Q::new(&self.n * &o.d - &o.n * &self.d, &self.d * &o.d) }
    fn mul(&self, o: &Self) -> Self { Q::new(&self.n * &o.n, &self.d * &o.d) }
    fn neg(&self) -> Self { Q { n: -&self.n, d: self.d.clone() } }
    fn from_i64(i: i64) -> Self { Q::int(z(i)) }
    fn bits(&self) -> u64 { self.n.bits() + self.d.bits() }
    fn show(&self) -> String { if self.d.is_one() { self.n.to_string() } else { format!("{}/{}", self.n, self.d) } }
}

impl OEuc for Q {
    fn divrem(&self, b: &Self) -> (Self, Self) { (self.div(b), Q::o0()) }
    fn size(&self) -> Z { if self.n.is_zero() { z(0) } else { z(1) } }
    fn is_unit(&self) -> bool { !self.n.is_zero() }
    fn is_normalized(&self) -> bool { self.n.is_zero() || (self.n.is_one() && self.d.is_one()) }
    fn unit_samples() -> Vec<Self> { vec![Q::int(z(1)), Q::int(z(-1)), Q::int(z(2)), Q::new(z(1), z(2)), Q::new(z(-3), z(7))] }
}

// ------------------------------------------------------------------ quadratic integers Z[w]
// w = sqrt(D) for D = 2,3 mod 4 and (1+sqrt(D))/2 for D = 1 mod 4; multiplication
// through the 2x2 regular representation of w.

#[derive(Clone, PartialEq, Eq, Debug, Hash)]
pub struct QI<const D: i32>(pub Z, pub Z);

impl<const D: i32> QI<D> {
    /// w^2 = p + q w
    fn w2() -> (Z, Z) {
        if D.rem_euclid(4) == 1 { (z(((D - 1) / 4) as i64), z(1)) } else { (z(D as i64), z(0)) }
    }
    pub fn conj(&self) -> Self {
        // conj(w) = tr - w, tr = q
        let (_, q) = Self::w2();
        QI(&self.0 + &self.1 * &q, -&self.1)
    }
    pub fn norm(&self) -> Z {
        let n = self.mul(&self.conj());
        debug_assert!(n.1.is_zero());
        n.0
    }
    pub fn units() -> Vec<Self> {
        match D {
            -1 => vec![QI(z(1), z(0)), QI(z(0), z(1)), QI(z(-1), z(0)), QI(z(0), z(-1))],
            -3 => vec![QI(z(1), z(0)), QI(z(0), z(1)), QI(z(-1), z(1)), QI(z(-1), z(0)), QI(z(0), z(-1)), QI(z(1), z(-1))],
            _ => vec![QI(z(1), z(0)), QI(z(-1), z(0))],
        }
    }
}

impl<const D: i32> ORing for QI<D> {
    fn o0() -> Self { QI(z(0), z(0)) }
    fn o1() -> Self { QI(z(1), z(0)) }
    fn add(&self, o: &Self) -> Self { QI(&self.0 + &o.0, &self.1 + &o.1) }
    fn sub(&self, o: &Self) -> Self { QI(&self.0 - &o.0, &self.1 - &o.1) }
    fn mul(&self, o: &Self) -> Self {
        // (a + b w)(c + d w) = ac + (ad + bc) w + bd w^2
        let (p, q) = Self::w2();
        let (a, b, c, d) = (&self.0, &self.1, &o.0, &o.1);
        let bd = b * d;
        QI(a * c + &bd * &p, a * d + b * c + &bd * &q)
    }
    fn neg(&self) -> Self { QI(-&self.0, -&self.1) }
    fn from_i64(i: i64) -> Self { QI(z(i), z(0)) }
    fn bits(&self) -> u64 { self.0.bits() + self.1.bits() }
    fn show(&self) -> String { format!("({},{})", self.0, self.1) }
}

impl<const D: i32> OEuc for QI<D> {
    // only meaningful for the norm-Euclidean D = -1, -3 (also -2, -7, -11, 2, 3, 5 ...)
    fn divrem(&self, b: &Self) -> (Self, Self) {
        // z / b = (x + y w) / n exactly; a nearest lattice point is one of the four corners
        // of the unit parallelogram containing it: try all four, keep the smallest remainder.
        let n = b.norm();
        let w = self.mul(&b.conj());
        let (n, w) = if n.is_negative() { (-n, w.neg()) } else { (n, w) };
        let x0 = w.0.div_floor(&n);
        let y0 = w.1.div_floor(&n);
        let mut best: Option<(Z, QI<D>)> = None;
        for dx in 0..=1i64 {
            for dy in 0..=1i64 {
                let cand = QI(&x0 + z(dx), &y0 + z(dy));
                let r = self.sub(&cand.mul(b));
                let s = r.norm().abs();
                if best.as_ref().map(|(bs, _)| &s < bs).unwrap_or(true) { best = Some((s, cand)) }
            }
        }
        let qq = best.unwrap().1;
        let r = self.sub(&qq.mul(b));
        (qq, r)
    }
    fn size(&self) -> Z { self.norm().abs() }
    fn is_unit(&self) -> bool { self.norm().abs().is_one() }
    fn is_normalized(&self) -> bool {
        let (a, b) = (&self.0, &self.1);
        if a.is_zero() && b.is_zero() { return true }
        match D {
            // first quadrant, real axis included, imaginary axis excluded
            -1 => a.is_positive() && !b.is_negative(),
            // sextant 0 <= arg < 60 degrees in the basis (1, w): a > 0, b >= 0
            -3 => a.is_positive() && !b.is_negative(),
            _ => !a.is_negative(),
        }
    }
    fn unit_samples() -> Vec<Self> { Self::units() }
}

// ------------------------------------------------------------------ univariate polynomials over a field-like OEuc

#[derive(Clone, PartialEq, Eq, Debug, Hash)]
pub struct OPoly<K>(pub Vec<K>); // coefficients, lowest first, no trailing zero

impl<K: OEuc> OPoly<K> {
    pub fn new(mut c: Vec<K>) -> Self {
        while c.last().map(|x| x.is0()).unwrap_or(false) { c.pop(); }
        OPoly(c)
    }
    pub fn deg(&self) -> Option<usize> { if self.0.is_empty() { None } else { Some(self.0.len() - 1) } }
    pub fn lead(&self) -> K { self.0.last().cloned().unwrap_or(K::o0()) }
    pub fn constant(k: K) -> Self { OPoly::new(vec![k]) }
    pub fn x() -> Self { OPoly::new(vec![K::o0(), K::o1()]) }
    pub fn eval(&self, x: &K) -> K {
        let mut r = K::o0();
        for c in self.0.iter().rev() { r = r.mul(x).add(c) }
        r
    }
    pub fn scale(&self, k: &K) -> Self { OPoly::new(self.0.iter().map(|c| c.mul(k)).collect()) }
}

impl<K: OEuc> ORing for OPoly<K> {
    fn o0() -> Self { OPoly(vec![]) }
    fn o1() -> Self { OPoly::new(vec![K::o1()]) }
    fn add(&self, o: &Self) -> Self {
        let n = self.0.len().max(o.0.len());
        OPoly::new((0..n).map(|i| self.0.get(i).cloned().unwrap_or(K::o0()).add(&o.0.get(i).cloned().unwrap_or(K::o0()))).collect())
    }
    fn sub(&self, o: &Self) -> Self { self.add(&o.neg()) }
    fn mul(&self, o: &Self) -> Self {
        if self.0.is_empty() || o.0.is_empty() { return Self::o0() }
        let mut r = vec![K::o0(); self.0.len() + o.0.len() - 1];
        for (i, a) in self.0.iter().enumerate() { for (j, b) in o.0.iter().enumerate() { r[i + j] = r[i + j].add(&a.mul(b)) } }
        OPoly::new(r)
    }
    fn neg(&self) -> Self { OPoly(self.0.iter().map(|c| c.neg()).collect()) }
    fn from_i64(i: i64) -> Self { OPoly::new(vec![K::from_i64(i)]) }
    fn bits(&self) -> u64 { self.0.iter().map(|c| c.bits() + 1).sum() }
    fn show(&self) -> String {
        if self.0.is_empty() { return "0".into() }
        self.0.iter().enumerate().filter(|(_, c)| !c.is0()).map(|(i, c)| format!("{}x^{}", c.show(), i)).collect::<Vec<_>>().join(" + ")
    }
}

impl<K: OEuc> OEuc for OPoly<K> {
    // K must be a field
    fn divrem(&self, b: &Self) -> (Self, Self) {
        let db = b.deg().expect("poly division by zero in oracle");
        let lb_inv = K::o1().divrem(&b.lead()).0;
        let mut r = self.clone();
        let mut q = vec![K::o0(); self.0.len().saturating_sub(db).max(1)];
        while let Some(dr) = r.deg() {
            if dr < db { break }
            let c = r.lead().mul(&lb_inv);
            let k = dr - db;
            q[k] = c.clone();
            let mut sh = vec![K::o0(); k];
            sh.extend(b.0.iter().map(|x| x.mul(&c)));
            r = r.sub(&OPoly::new(sh));
        }
        (OPoly::new(q), r)
    }
    fn size(&self) -> Z { match self.deg() { None => z(0), Some(d) => z(1) << d } }
    fn is_unit(&self) -> bool { self.deg() == Some(0) }
    fn is_normalized(&self) -> bool { self.0.is_empty() || self.lead().is1() }
    fn unit_samples() -> Vec<Self> { K::unit_samples().into_iter().map(OPoly::constant).collect() }
}
