// Link combinatorics from a raw PD code. Independent of yui-link.
// Conventions (Knot Atlas): a crossing [a,b,c,d] lists its four edge ends counter-clockwise
// starting at the incoming under-strand; the under strand runs 0 -> 2. `neg[k]` marks a crossing
// whose over/under information has been switched (crossing change) while keeping the labels.

use std::collections::{BTreeMap, BTreeSet, HashMap};

use num_bigint::BigInt;
use num_traits::{One, Zero};

#[derive(Clone, Debug, PartialEq, Eq, Hash)]
pub struct PD { pub x: Vec<[usize; 4]>, pub neg: Vec<bool> }

pub type Laurent = BTreeMap<i64, BigInt>;

pub fn laurent_add(a: &mut Laurent, e: i64, c: BigInt) {
    let v = a.entry(e).or_insert_with(BigInt::zero);
    *v += c;
    if v.is_zero() { a.remove(&e); }
}

pub fn laurent_mul(a: &Laurent, b: &Laurent) -> Laurent {
    let mut r = Laurent::new();
    for (e1, c1) in a { for (e2, c2) in b { laurent_add(&mut r, e1 + e2, c1 * c2) } }
    r
}

struct Uf { p: Vec<usize> }
impl Uf {
    fn new(n: usize) -> Self { Uf { p: (0..n).collect() } }
    fn find(&mut self, x: usize) -> usize { let mut x = x; while self.p[x] != x { self.p[x] = self.p[self.p[x]]; x = self.p[x] } x }
    fn join(&mut self, a: usize, b: usize) { let (a, b) = (self.find(a), self.find(b)); if a != b { self.p[a] = b } }
}

impl PD {
    pub fn new(x: Vec<[usize; 4]>) -> Self { let n = x.len(); PD { x, neg: vec![false; n] } }
    pub fn n(&self) -> usize { self.x.len() }

    pub fn edges(&self) -> Vec<usize> {
        let s: BTreeSet<usize> = self.x.iter().flat_map(|c| c.iter().cloned()).collect();
        s.into_iter().collect()
    }

    /// endpoints of every edge label: (crossing, position)
    pub fn ends(&self) -> HashMap<usize, Vec<(usize, usize)>> {
        let mut m: HashMap<usize, Vec<(usize, usize)>> = HashMap::new();
        for (k, c) in self.x.iter().enumerate() { for (j, &e) in c.iter().enumerate() { m.entry(e).or_default().push((k, j)) } }
        m
    }

    fn other_end(ends: &HashMap<usize, Vec<(usize, usize)>>, e: usize, here: (usize, usize)) -> (usize, usize) {
        let v = &ends[&e];
        if v[0] == here { v[1] } else { v[0] }
    }

    /// Orientation of every edge end: true = the strand leaves the crossing through this end.
    /// Rule: the strand through positions 0,2 runs 0 -> 2 at every crossing (for a switched crossing the
    /// labels are kept, so the same rule applies to the strand that is now on top). Ends at positions 1,3
    /// get their role from the other end of their edge; components never seen at positions 0/2 are
    /// oriented according to `free_choice` (bit k for the k-th such component, ordered by least edge).
    /// Err if the code is not a consistently oriented PD code.
    pub fn orientation(&self, free_choice: u64) -> Result<(Vec<[bool; 4]>, usize), String> {
        let ends = self.ends();
        for (e, v) in &ends { if v.len() != 2 { return Err(format!("edge {e} has {} ends", v.len())) } }
        let n = self.n();
        let mut out: Vec<[Option<bool>; 4]> = vec![[None; 4]; n];
        for k in 0..n { out[k][0] = Some(false); out[k][2] = Some(true); }
        // propagate: along an edge (out <-> in), and through a crossing (1 <-> 3 opposite roles)
        let mut changed = true;
        while changed {
            changed = false;
            for k in 0..n { for j in 0..4 {
                let Some(o) = out[k][j] else { continue };
                let (k2, j2) = Self::other_end(&ends, self.x[k][j], (k, j));
                match out[k2][j2] {
                    None => { out[k2][j2] = Some(!o); changed = true }
                    Some(o2) => if o2 == o { return Err(format!("edge {} is not consistently oriented", self.x[k][j])) }
                }
                let jo = (j + 2) % 4;
                match out[k][jo] {
                    None => { out[k][jo] = Some(!o); changed = true }
                    Some(o2) => if o2 == o { return Err(format!("strand through crossing {k} is not consistently oriented")) }
                }
            } }
        }
        // free (over-only) components
        let mut nfree = 0;
        loop {
            let mut best: Option<(usize, usize, usize)> = None; // edge, crossing, position
            for k in 0..n { for j in [1usize, 3] { if out[k][j].is_none() {
                let e = self.x[k][j];
                if best.map(|b| e < b.0).unwrap_or(true) { best = Some((e, k, j)) }
            } } }
            let Some((_, k, j)) = best else { break };
            out[k][j] = Some((free_choice >> nfree) & 1 == 1);
            nfree += 1;
            let mut changed = true;
            while changed {
                changed = false;
                for k in 0..n { for j in 0..4 {
                    let Some(o) = out[k][j] else { continue };
                    let (k2, j2) = Self::other_end(&ends, self.x[k][j], (k, j));
                    if out[k2][j2].is_none() { out[k2][j2] = Some(!o); changed = true } else if out[k2][j2] == Some(o) { return Err("inconsistent free component".into()) }
                    let jo = (j + 2) % 4;
                    if out[k][jo].is_none() { out[k][jo] = Some(!o); changed = true } else if out[k][jo] == Some(o) { return Err("inconsistent free component".into()) }
                } }
            }
        }
        Ok((out.into_iter().map(|r| [r[0].unwrap(), r[1].unwrap(), r[2].unwrap(), r[3].unwrap()]).collect(), nfree))
    }

    /// all checks a generated diagram must pass: 2 ends per edge, coherent orientation, planarity
    pub fn validate(&self) -> Result<(), String> {
        self.orientation(0)?;
        let (v, e, f, c) = self.euler_data();
        if v as i64 - e as i64 + f as i64 != 2 * c as i64 { return Err(format!("not planar: V={v} E={e} F={f} components={c}")) }
        Ok(())
    }

    /// (#crossings, #edges, #faces, #connected components of the 4-valent graph)
    pub fn euler_data(&self) -> (usize, usize, usize, usize) {
        let ends = self.ends();
        let n = self.n();
        // faces: orbits of darts (k,j) -> follow edge to (k2,j2) -> turn to (k2,(j2+1)%4)
        let mut seen = vec![[false; 4]; n];
        let mut faces = 0;
        for k in 0..n { for j in 0..4 {
            if seen[k][j] { continue }
            faces += 1;
            let (mut a, mut b) = (k, j);
            while !seen[a][b] {
                seen[a][b] = true;
                let (k2, j2) = Self::other_end(&ends, self.x[a][b], (a, b));
                a = k2; b = (j2 + 1) % 4;
            }
        } }
        let mut uf = Uf::new(n);
        for v in ends.values() { uf.join(v[0].0, v[1].0) }
        let comps: BTreeSet<usize> = (0..n).map(|k| uf.find(k)).collect();
        (n, ends.len(), faces, comps.len())
    }

    /// link components as sets of edge labels (orbits of 0~2, 1~3)
    pub fn components(&self) -> Vec<BTreeSet<usize>> {
        let es = self.edges();
        let idx: HashMap<usize, usize> = es.iter().enumerate().map(|(i, e)| (*e, i)).collect();
        let mut uf = Uf::new(es.len());
        for c in &self.x { uf.join(idx[&c[0]], idx[&c[2]]); uf.join(idx[&c[1]], idx[&c[3]]) }
        let mut m: BTreeMap<usize, BTreeSet<usize>> = BTreeMap::new();
        for (i, e) in es.iter().enumerate() { m.entry(uf.find(i)).or_default().insert(*e); }
        let mut v: Vec<BTreeSet<usize>> = m.into_values().collect();
        v.sort_by_key(|s| *s.iter().next().unwrap());
        v
    }

    /// crossing signs for a given choice of orientation of the over-only components
    pub fn signs(&self, free_choice: u64) -> Result<Vec<i32>, String> {
        let (out, _) = self.orientation(free_choice)?;
        Ok((0..self.n()).map(|k| {
            // the 1-3 strand runs 3 -> 1 iff end 1 is outgoing. For an ordinary crossing (under = 0->2) that is positive.
            let s = if out[k][1] { 1 } else { -1 };
            if self.neg[k] { -s } else { s }
        }).collect())
    }

    pub fn n_free(&self) -> usize { self.orientation(0).map(|x| x.1).unwrap_or(0) }

    pub fn writhe(&self) -> i32 { self.signs(0).map(|s| s.iter().sum()).unwrap_or(0) }

    /// the two arcs of the smoothing `bit` at crossing k, as pairs of positions
    pub fn smoothing(&self, k: usize, bit: bool) -> [(usize, usize); 2] {
        // ordinary crossing: 0-smoothing joins 0-1 and 2-3, 1-smoothing joins 0-3 and 1-2; switched: the other way round
        if bit != self.neg[k] { [(0, 3), (1, 2)] } else { [(0, 1), (2, 3)] }
    }

    /// circles of a resolution: classes of edge labels; returned as canonical id (least edge) per edge
    pub fn circles(&self, state: &[bool]) -> BTreeMap<usize, usize> {
        let es = self.edges();
        let idx: HashMap<usize, usize> = es.iter().enumerate().map(|(i, e)| (*e, i)).collect();
        let mut uf = Uf::new(es.len());
        for (k, c) in self.x.iter().enumerate() {
            for (a, b) in self.smoothing(k, state[k]) { uf.join(idx[&c[a]], idx[&c[b]]) }
        }
        let mut least: HashMap<usize, usize> = HashMap::new();
        for (i, e) in es.iter().enumerate() { let r = uf.find(i); let l = least.entry(r).or_insert(*e); if *e < *l { *l = *e } }
        es.iter().enumerate().map(|(i, e)| { let r = uf.find(i); (*e, least[&r]) }).collect()
    }

    pub fn n_circles(&self, state: &[bool]) -> usize {
        self.circles(state).values().collect::<BTreeSet<_>>().len()
    }

    /// unnormalised Jones polynomial (value q + q^-1 on the unknot) from the Kauffman state sum:
    /// (-1)^{n-} q^{n+ - 2 n-} sum_s (-q)^{|s|} (q + q^-1)^{circles(s)}
    pub fn jones(&self) -> Result<Laurent, String> {
        let n = self.n();
        if n > 22 { return Err("too many crossings for the state sum".into()) }
        let signs = self.signs(0)?;
        let (np, nm) = (signs.iter().filter(|&&s| s > 0).count() as i64, signs.iter().filter(|&&s| s < 0).count() as i64);
        let mut qq = Laurent::new(); qq.insert(1, BigInt::one()); qq.insert(-1, BigInt::one());
        let mut pows: Vec<Laurent> = vec![{ let mut o = Laurent::new(); o.insert(0, BigInt::one()); o }];
        let mut body = Laurent::new();
        for s in 0..(1u64 << n) {
            let st: Vec<bool> = (0..n).map(|k| (s >> k) & 1 == 1).collect();
            let c = self.n_circles(&st);
            while pows.len() <= c { let nx = laurent_mul(pows.last().unwrap(), &qq); pows.push(nx) }
            let w = st.iter().filter(|&&b| b).count() as i64;
            let sign = if w % 2 == 0 { BigInt::one() } else { -BigInt::one() };
            for (e, co) in &pows[c] { laurent_add(&mut body, e + w, co * &sign) }
        }
        let sign = if nm % 2 == 0 { BigInt::one() } else { -BigInt::one() };
        let mut r = Laurent::new();
        for (e, co) in &body { laurent_add(&mut r, e + np - 2 * nm, co * &sign) }
        Ok(r)
    }

    // ------------------------------------------------------------ transformations (diagram moves)

    pub fn relabel(&self, f: &HashMap<usize, usize>) -> PD {
        PD { x: self.x.iter().map(|c| [f[&c[0]], f[&c[1]], f[&c[2]], f[&c[3]]]).collect(), neg: self.neg.clone() }
    }

    pub fn permute_crossings(&self, p: &[usize]) -> PD {
        PD { x: p.iter().map(|&k| self.x[k]).collect(), neg: p.iter().map(|&k| self.neg[k]).collect() }
    }

    /// reverse the orientation of every component: [a,b,c,d] -> [c,d,a,b]
    pub fn reverse_all(&self) -> PD {
        PD { x: self.x.iter().map(|c| [c[2], c[3], c[0], c[1]]).collect(), neg: self.neg.clone() }
    }

    /// mirror image by switching every crossing (labels kept)
    pub fn mirror_flags(&self) -> PD { PD { x: self.x.clone(), neg: self.neg.iter().map(|b| !b).collect() } }

    /// the same diagram written with ordinary crossings only: a switched crossing is rotated so that its
    /// (new) under strand enters at position 0
    pub fn normalized(&self) -> Result<PD, String> {
        let (out, _) = self.orientation(0)?;
        let x = (0..self.n()).map(|k| {
            let c = self.x[k];
            if !self.neg[k] { c }
            else if out[k][1] { [c[3], c[0], c[1], c[2]] } // the 1-3 strand runs 3 -> 1: it enters at 3
            else { [c[1], c[2], c[3], c[0]] }
        }).collect();
        Ok(PD::new(x))
    }

    pub fn max_label(&self) -> usize { self.edges().into_iter().max().unwrap_or(0) }

    /// Reidemeister I: a kink of the given kind (0..4) on edge e
    pub fn r1(&self, e: usize, kind: usize) -> Result<PD, String> {
        let (out, _) = self.orientation(0)?;
        let ends = self.ends();
        let v = ends.get(&e).ok_or("no such edge")?;
        // the end where the strand enters a crossing (incoming there) gets the new label e2
        let (k_in, j_in) = if !out[v[0].0][v[0].1] { v[0] } else { v[1] };
        let m = self.max_label();
        let (l, e2) = (m + 1, m + 2);
        let mut p = self.clone();
        if v[0] == v[1] { return Err("degenerate edge".into()) }
        p.x[k_in][j_in] = e2;
        let kink = match kind % 4 {
            0 => [e, l, l, e2],   // under first, negative
            1 => [e, e2, l, l],   // under first, positive
            2 => [l, e, e2, l],   // over first, negative
            _ => [l, l, e2, e],   // over first, positive
        };
        p.x.push(kink);
        p.neg.push(false);
        Ok(p)
    }

    /// split union (labels of `o` are shifted)
    pub fn disjoint_union(&self, o: &PD) -> PD {
        let s = self.max_label() + 1;
        let mut x = self.x.clone();
        x.extend(o.x.iter().map(|c| [c[0] + s, c[1] + s, c[2] + s, c[3] + s]));
        let mut neg = self.neg.clone();
        neg.extend(o.neg.iter().cloned());
        PD { x, neg }
    }

    /// connected sum along edge e of self and edge f of `o`
    pub fn connected_sum(&self, e: usize, o: &PD, f: usize) -> Result<PD, String> {
        let s = self.max_label() + 1;
        let mut p = self.disjoint_union(o);
        let f = f + s;
        let (out, _) = p.orientation(0)?;
        let ends = p.ends();
        let (ve, vf) = (ends.get(&e).ok_or("no edge e")?, ends.get(&f).ok_or("no edge f")?);
        let in_e = if !out[ve[0].0][ve[0].1] { ve[0] } else { ve[1] };
        let in_f = if !out[vf[0].0][vf[0].1] { vf[0] } else { vf[1] };
        p.x[in_e.0][in_e.1] = f;
        p.x[in_f.0][in_f.1] = e;
        Ok(p)
    }

    pub fn switch_crossing(&self, k: usize) -> PD {
        let mut p = self.clone();
        p.neg[k] = !p.neg[k];
        p
    }
}

/// is there a bijection of edge labels carrying `a` to `b` crossing by crossing, position by position?
pub fn edge_bijective(a: &PD, b: &PD) -> bool {
    if a.n() != b.n() || a.neg != b.neg { return false }
    let mut f: HashMap<usize, usize> = HashMap::new();
    let mut g: HashMap<usize, usize> = HashMap::new();
    for k in 0..a.n() { for j in 0..4 {
        let (x, y) = (a.x[k][j], b.x[k][j]);
        if *f.entry(x).or_insert(y) != y || *g.entry(y).or_insert(x) != x { return false }
    } }
    true
}

// ------------------------------------------------------------ braids (own closure)

/// closure of a braid word on `n` strands (letters +-i, 1 <= i < n), strands oriented downwards;
/// positive letter = the strand from the upper right passes over. Err if the closure has a free loop.
pub fn braid_closure(n: usize, word: &[i32]) -> Result<PD, String> {
    // label the edge hanging below position p after l letters by a fresh number
    let mut next = 1usize;
    let mut top: Vec<usize> = (0..n).map(|_| { let v = next; next += 1; v }).collect();
    let first = top.clone();
    let mut x = vec![];
    for &s in word {
        let i = (s.unsigned_abs() as usize).checked_sub(1).ok_or("zero letter")?;
        if i + 1 >= n { return Err("letter out of range".into()) }
        let (tl, tr) = (top[i], top[i + 1]);
        let (bl, br) = (next, next + 1);
        next += 2;
        // counter-clockwise ends: top-left, bottom-left, bottom-right, top-right
        if s > 0 { x.push([tl, bl, br, tr]) } // under: top-left -> bottom-right; over: top-right -> bottom-left (3 -> 1)
        else { x.push([tr, tl, bl, br]) }     // under: top-right -> bottom-left; over: top-left -> bottom-right (1 -> 3)
        top[i] = bl; top[i + 1] = br;
    }
    // close up: the edge at the bottom of position p is the edge at the top of position p
    let mut f: HashMap<usize, usize> = HashMap::new();
    for p in 0..n {
        if top[p] == first[p] { return Err("free loop".into()) }
        f.insert(top[p], first[p]);
    }
    let x: Vec<[usize; 4]> = x.into_iter().map(|c| c.map(|e| *f.get(&e).unwrap_or(&e))).collect();
    Ok(PD::new(x))
}

pub fn braid_perm_cycles(n: usize, word: &[i32]) -> usize {
    let mut p: Vec<usize> = (0..n).collect();
    for &s in word { let i = s.unsigned_abs() as usize - 1; p.swap(i, i + 1) }
    let mut seen = vec![false; n];
    let mut c = 0;
    for i in 0..n { if !seen[i] { c += 1; let mut j = i; while !seen[j] { seen[j] = true; j = p[j] } } }
    c
}

impl PD {
    /// lay an unknotted ring over edge e (two new crossings in which the ring is the over strand):
    /// the result has an over-only component whose orientation is not determined by the code
    pub fn ring_over(&self, e: usize) -> Result<PD, String> {
        let (out, _) = self.orientation(0)?;
        let ends = self.ends();
        let v = ends.get(&e).ok_or("no such edge")?;
        if v[0] == v[1] { return Err("degenerate edge".into()) }
        let (k_in, j_in) = if !out[v[0].0][v[0].1] { v[0] } else { v[1] };
        let m0 = self.max_label();
        let (m, e2, r1, r2) = (m0 + 1, m0 + 2, m0 + 3, m0 + 4);
        let mut p = self.clone();
        p.x[k_in][j_in] = e2;
        p.x.push([e, r2, m, r1]);
        p.x.push([m, r2, e2, r1]);
        p.neg.push(false);
        p.neg.push(false);
        Ok(p)
    }
}

impl PD {
    /// Jones polynomial for a given orientation choice of the over-only components
    pub fn jones_with(&self, free_choice: u64) -> Result<Laurent, String> {
        let n = self.n();
        if n > 22 { return Err("too many crossings for the state sum".into()) }
        let signs = self.signs(free_choice)?;
        let (np, nm) = (signs.iter().filter(|&&s| s > 0).count() as i64, signs.iter().filter(|&&s| s < 0).count() as i64);
        // bracket part does not depend on the orientation
        let j0 = self.jones()?;
        let s0 = self.signs(0)?;
        let (np0, nm0) = (s0.iter().filter(|&&s| s > 0).count() as i64, s0.iter().filter(|&&s| s < 0).count() as i64);
        let shift = (np - 2 * nm) - (np0 - 2 * nm0);
        let flip = (nm - nm0).rem_euclid(2) == 1;
        Ok(j0.into_iter().map(|(e, c)| (e + shift, if flip { -c } else { c })).collect())
    }

    /// the diagram obtained by the orientation-preserving smoothing of crossing k (None if a free circle splits off)
    pub fn smooth_oriented(&self, k: usize) -> Option<(PD, bool)> {
        let signs = self.signs(0).ok()?;
        let bit = signs[k] < 0; // positive -> 0-smoothing, negative -> 1-smoothing
        let arcs = self.smoothing(k, bit);
        let c = self.x[k];
        let mut f: HashMap<usize, usize> = HashMap::new();
        for (a, b) in arcs {
            if c[a] == c[b] { return None }
            f.insert(c[b], c[a]);
        }
        // the two merged labels must be distinct classes
        let mut x = vec![];
        let mut neg = vec![];
        for (i, cr) in self.x.iter().enumerate() {
            if i == k { continue }
            x.push(cr.map(|e| { let mut e = e; let mut guard = 0; while let Some(&g) = f.get(&e) { e = g; guard += 1; if guard > 4 { break } } e }));
            neg.push(self.neg[i]);
        }
        let p = PD { x, neg };
        if p.ends().values().any(|v| v.len() != 2) { return None }
        Some((p, bit))
    }
}

pub fn laurent_invert(a: &Laurent) -> Laurent { a.iter().map(|(e, c)| (-e, c.clone())).collect() }

impl PD {
    /// Reidemeister II by search: push the strand on edge `e` across the strand on edge `f` (two new crossings,
    /// the same strand on top at both). All 16 ways of writing the two crossing codes (which strand is on
    /// top, parallel / antiparallel pairing, cyclic order at each crossing) are generated; a candidate is
    /// accepted only if it is a valid planar diagram with the same number of components and the same
    /// bracket polynomial as `self` — so the result is sound with respect to the oracle by construction.
    /// Returns None when e and f do not lie on a common face (no candidate is planar).
    pub fn r2_search(&self, e: usize, f: usize, pick: usize) -> Option<PD> {
        if e == f { return None }
        let (out, _) = self.orientation(0).ok()?;
        let ends = self.ends();
        let (ve, vf) = (ends.get(&e)?, ends.get(&f)?);
        if ve[0] == ve[1] || vf[0] == vf[1] { return None }
        let head = |v: &Vec<(usize, usize)>| if !out[v[0].0][v[0].1] { v[0] } else { v[1] }; // the end where the strand arrives
        let (he, hf) = (head(ve), head(vf));
        let m = self.max_label();
        let (e1, e2, f1, f2) = (m + 1, m + 2, m + 3, m + 4); // e -> e, e1, e2 ; f -> f, f1, f2 along the orientation
        let j0 = self.jones().ok()?;
        let nc = self.components().len();
        let mut found = vec![];
        for cfg in 0..16u32 {
            let e_over = cfg & 1 == 1;
            let parallel = cfg & 2 == 2;
            let (s1, s2) = (cfg & 4 == 4, cfg & 8 == 8);
            // first crossing: e-segment (e -> e1); second: (e1 -> e2). f-segments: parallel: (f -> f1), (f1 -> f2); antiparallel: (f1 -> f2), (f -> f1)
            let fa = if parallel { (f, f1) } else { (f1, f2) };
            let fb = if parallel { (f1, f2) } else { (f, f1) };
            let code = |u: (usize, usize), o: (usize, usize), flip: bool| -> [usize; 4] { if flip { [u.0, o.0, u.1, o.1] } else { [u.0, o.1, u.1, o.0] } };
            let (c1, c2) = if e_over { (code(fa, (e, e1), s1), code(fb, (e1, e2), s2)) } else { (code((e, e1), fa, s1), code((e1, e2), fb, s2)) };
            let mut p = self.clone();
            p.x[he.0][he.1] = e2;
            p.x[hf.0][hf.1] = f2;
            // if both heads are the same end list entry (cannot be: e != f) fine
            p.x.push(c1); p.x.push(c2);
            p.neg.push(false); p.neg.push(false);
            if p.validate().is_err() || p.n_free() != self.n_free() { continue }
            if p.components().len() != nc { continue }
            if p.jones().ok().as_ref() != Some(&j0) { continue }
            found.push(p);
        }
        if found.is_empty() { None } else { let k = pick % found.len(); Some(found.swap_remove(k)) }
    }
}

impl PD {
    /// faces as cyclic lists of darts (crossing, position); the dart's edge is x[crossing][position]
    pub fn faces(&self) -> Vec<Vec<(usize, usize)>> {
        let ends = self.ends();
        let n = self.n();
        let mut seen = vec![[false; 4]; n];
        let mut out = vec![];
        for k in 0..n { for j in 0..4 {
            if seen[k][j] { continue }
            let mut f = vec![];
            let (mut a, mut b) = (k, j);
            while !seen[a][b] {
                seen[a][b] = true;
                f.push((a, b));
                let (k2, j2) = Self::other_end(&ends, self.x[a][b], (a, b));
                a = k2; b = (j2 + 1) % 4;
            }
            out.push(f);
        } }
        out
    }

    /// Reidemeister III on a triangular face (three distinct crossings, three distinct sides, the three
    /// over/under relations transitive): every strand meets its two crossings in the opposite order
    /// afterwards, every crossing keeps its local picture. Pure slot substitution; the result is
    /// additionally required to be a valid planar diagram with equal components and equal bracket.
    pub fn r3(&self, face: &[(usize, usize)]) -> Option<PD> {
        if face.len() != 3 { return None }
        let ends = self.ends();
        let ks: BTreeSet<usize> = face.iter().map(|d| d.0).collect();
        let es: BTreeSet<usize> = face.iter().map(|d| self.x[d.0][d.1]).collect();
        if ks.len() != 3 || es.len() != 3 { return None }
        // the three sides with both ends
        let mut sides = vec![];
        for &e in &es {
            let v = &ends[&e];
            if v.len() != 2 || v[0].0 == v[1].0 || !ks.contains(&v[0].0) || !ks.contains(&v[1].0) { return None }
            sides.push((e, v[0], v[1]));
        }
        // over/under must be transitive: some strand (side) is over at both of its ends
        let over = |(k, j): (usize, usize)| (j % 2 == 1) != self.neg[k];
        let n_top = sides.iter().filter(|s| over(s.1) && over(s.2)).count();
        let n_bot = sides.iter().filter(|s| !over(s.1) && !over(s.2)).count();
        if n_top != 1 || n_bot != 1 { return None }
        let mut p = self.clone();
        for &(e, (ka, ja), (kb, jb)) in &sides {
            let (oa, ob) = (self.x[ka][(ja + 2) % 4], self.x[kb][(jb + 2) % 4]);
            if es.contains(&oa) || es.contains(&ob) { return None }
            p.x[ka][(ja + 2) % 4] = e; p.x[ka][ja] = ob;
            p.x[kb][(jb + 2) % 4] = e; p.x[kb][jb] = oa;
        }
        if p.validate().is_err() || p.n_free() != self.n_free() { return None }
        if p.components().len() != self.components().len() { return None }
        if self.n() <= 12 && p.jones().ok() != self.jones().ok() { return None }
        Some(p)
    }
}
