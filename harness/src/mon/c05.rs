// C05 — every Khovanov complex returned is a graded chain complex, over any ring, and building with
// polynomial parameters (H,T) commutes with evaluation.
// The differential matrices are exported term by term; d*d, degrees and the evaluated complexes are
// recomputed with the harness' own polynomial / modular arithmetic.

use std::collections::BTreeMap;

use serde_json::json;
use yui::poly::{Mono, Poly, Poly2};
use yui::{EucRingOps, Ratio, Ring, RingOps, FF};
use yui_homology::{ChainComplexTrait, GridTrait, SummandTrait};
use yui_kh::kh::KhComplex;
use yui_matrix::MatTrait;

use crate::bridge::Bridge;
use crate::ctx::{guarded, hash_of, Ctx, Rng};
use crate::diag::*;
use crate::khx::*;
use crate::mon::c01::{gen_diagram, pools};
use crate::oracle::chain::SparseComplex;
use crate::oracle::num::*;

/// coefficient kinds: how an exported coefficient is turned into something the oracle can compute with
pub trait Coef: Bridge { const KIND: RingKind; fn to_mod(o: &Self::O, p: i64) -> i64; fn to_int(o: &Self::O) -> Option<i64>; }
impl Coef for i64 { const KIND: RingKind = RingKind::Z; fn to_mod(o: &Z, p: i64) -> i64 { Fp::<2147483647>::from_z(o).0 as i64 % p } fn to_int(o: &Z) -> Option<i64> { use num_traits::ToPrimitive; o.to_i64() } }
impl Coef for Ratio<i64> {
    const KIND: RingKind = RingKind::Q;
    fn to_mod(o: &Q, p: i64) -> i64 {
        let n = Fp::<2147483647>::from_z(&o.n); let d = Fp::<2147483647>::from_z(&o.d);
        let _ = p;
        n.mul(&d.inv().unwrap_or(Fp(0))).0 as i64
    }
    fn to_int(_: &Q) -> Option<i64> { None }
}
impl Coef for FF<2> { const KIND: RingKind = RingKind::Fp(2); fn to_mod(o: &Fp<2>, _p: i64) -> i64 { o.0 as i64 } fn to_int(_: &Fp<2>) -> Option<i64> { None } }
impl Coef for FF<3> { const KIND: RingKind = RingKind::Fp(3); fn to_mod(o: &Fp<3>, _p: i64) -> i64 { o.0 as i64 } fn to_int(_: &Fp<3>) -> Option<i64> { None } }

const BIG_P: i64 = 2147483647;

/// a ring of Frobenius parameters: how (h,t) look and how an entry decomposes into terms c H^a T^b
pub trait ParamRing: Ring + Send + Sync where for<'x> &'x Self: RingOps<Self> {
    type K: Coef;
    fn pname() -> String;
    fn ht() -> (Self, Self);
    fn uses() -> (bool, bool);
    fn terms(&self) -> Vec<((usize, usize), <Self::K as Bridge>::O)>;
}

macro_rules! impl_param { ($k:ty) => {
    impl ParamRing for Poly<'H', $k> {
        type K = $k;
        fn pname() -> String { format!("{}[H]", <$k as Bridge>::name()) }
        fn ht() -> (Self, Self) { (Self::variable(), Self::from_const(<$k as num_traits::Zero>::zero())) }
        fn uses() -> (bool, bool) { (true, false) }
        fn terms(&self) -> Vec<((usize, usize), <$k as Bridge>::O)> { self.iter().map(|(x, c)| ((x.deg(), 0), c.to_o())).collect() }
    }
    impl ParamRing for Poly<'T', $k> {
        type K = $k;
        fn pname() -> String { format!("{}[T]", <$k as Bridge>::name()) }
        fn ht() -> (Self, Self) { (Self::from_const(<$k as num_traits::Zero>::zero()), Self::variable()) }
        fn uses() -> (bool, bool) { (false, true) }
        fn terms(&self) -> Vec<((usize, usize), <$k as Bridge>::O)> { self.iter().map(|(x, c)| ((0, x.deg()), c.to_o())).collect() }
    }
    impl ParamRing for Poly2<'H', 'T', $k> {
        type K = $k;
        fn pname() -> String { format!("{}[H,T]", <$k as Bridge>::name()) }
        fn ht() -> (Self, Self) { (Self::variable(0), Self::variable(1)) }
        fn uses() -> (bool, bool) { (true, true) }
        fn terms(&self) -> Vec<((usize, usize), <$k as Bridge>::O)> { self.iter().map(|(x, c)| (x.deg(), c.to_o())).collect() }
    }
}; }
impl_param!(i64);
impl_param!(Ratio<i64>);
impl_param!(FF<2>);
impl_param!(FF<3>);

type OPoly2<O> = BTreeMap<(usize, usize), O>;

fn p_add<O: ORing>(a: &mut OPoly2<O>, k: (usize, usize), c: O) {
    let cur = a.remove(&k).unwrap_or(O::o0());
    let s = cur.add(&c);
    if !s.is0() { a.insert(k, s); }
}

struct Exported<O> {
    degs: Vec<isize>,                                   // homological degrees, ascending
    gens: Vec<Vec<(isize, isize)>>,                     // (h_deg, q_deg) of every generator
    d: Vec<Vec<(usize, usize, OPoly2<O>)>>,             // d[k]: entries (row in degs[k]+1, col in degs[k])
    dims_ok: bool,
}

fn export<P: ParamRing>(c: &KhComplex<P>) -> Exported<<P::K as Bridge>::O> where for<'x> &'x P: RingOps<P> {
    let degs: Vec<isize> = c.support().collect();
    let mut gens = vec![];
    let mut d = vec![];
    let mut dims_ok = true;
    for &i in &degs {
        let s = &c[i];
        let g: Vec<(isize, isize)> = s.raw_gens().iter().map(|x| (x.h_deg(), x.q_deg())).collect();
        if g.len() != s.rank() { dims_ok = false }
        gens.push(g);
        let m = c.d_matrix(i);
        let mut e = vec![];
        for (r, col, v) in m.iter() {
            let mut p: OPoly2<<P::K as Bridge>::O> = BTreeMap::new();
            for (k, co) in v.terms() { p_add(&mut p, k, co) }
            if !p.is_empty() { e.push((r, col, p)) }
        }
        if m.ncols() != s.rank() { dims_ok = false }
        d.push(e);
    }
    Exported { degs, gens, d, dims_ok }
}

fn case<P: ParamRing>(ctx: &mut Ctx, rng: &mut Rng) where for<'x> &'x P: RingOps<P>, <P::K as Bridge>::O: OEuc {
    let pname = P::pname();
    let maxc = ctx.by_tier(8, 10);
    let (pd, origin) = gen_diagram(rng, maxc);
    if pd.validate().is_err() || pd.n_free() > 0 { ctx.inconclusive("generator_invalid_diagram"); return }
    let (uses_h, uses_t) = P::uses();
    let reduced = !uses_t && pd.n() > 0 && rng.chance(1, 3);
    let nthreads = *rng.choose(&[1usize, 4, 16]);
    let conf = json!({"ring": pname, "origin": origin, "reduced": reduced, "threads": nthreads});
    let wit = |extra: serde_json::Value| json!({"config": conf, "pd": pd.x, "switched": pd.neg, "detail": extra});
    let l = to_link(&pd);
    let l2 = l.clone();
    let pool = &pools()[&nthreads];
    // one complex in three is built divide-and-conquer (two halves glued by TngComplex::connect)
    let ncr = l2.crossing_num();
    let split = if ncr >= 2 && rng.chance(1, 3) { Some(rng.urange(1, ncr - 1)) } else { None };
    if split.is_some() { ctx.count("divide_and_conquer_builds", 1) }
    let res = guarded(move || pool.install(move || { let (h, t) = P::ht(); export(&build_complex_split::<P>(&l2, &h, &t, reduced, split)) }));
    let ex = match res {
        Ok(x) => x,
        Err(e) => {
            if <P::K as Bridge>::bounded() && e.is_overflow() { ctx.inconclusive("overflow_machine_int"); return }
            ctx.violation(&format!("C05/{pname}/panic"), &format!("KhComplex::new panicked: {}", e.brief()), wit(json!(null))); return
        }
    };
    if !ex.dims_ok { ctx.violation(&format!("C05/{pname}/shape"), "generator lists and differential matrices have inconsistent sizes", wit(json!(null))); return }
    // (ii) degrees: homological +1, quantum 0 with deg H = -2, deg T = -4
    for (k, &i) in ex.degs.iter().enumerate() {
        if ex.gens[k].iter().any(|g| g.0 != i) { ctx.violation(&format!("C05/{pname}/h-degree"), &format!("a generator listed in degree {i} reports another homological degree"), wit(json!(null))); return }
        let next = ex.degs.iter().position(|&j| j == i + 1);
        for (r, c, p) in &ex.d[k] {
            let Some(nk) = next else { ctx.violation(&format!("C05/{pname}/h-degree"), &format!("non-zero differential out of degree {i} into an unsupported degree"), wit(json!(null))); return };
            let (x, y) = (ex.gens[k][*c], ex.gens[nk][*r]);
            for (&(a, b), _) in p {
                if y.1 - 2 * a as isize - 4 * b as isize != x.1 {
                    ctx.violation(&format!("C05/{pname}/q-degree"), &format!("entry H^{a} T^{b} from a generator of q-degree {} to one of q-degree {} is not homogeneous of degree 0", x.1, y.1), wit(json!({"degree": i})));
                    return
                }
            }
        }
    }
    // (i) d d = 0 with own polynomial arithmetic
    for (k, &i) in ex.degs.iter().enumerate() {
        let Some(nk) = ex.degs.iter().position(|&j| j == i + 1) else { continue };
        let mut by_col: BTreeMap<usize, Vec<(usize, &OPoly2<<P::K as Bridge>::O>)>> = BTreeMap::new();
        for (r, c, p) in &ex.d[nk] { by_col.entry(*c).or_default().push((*r, p)) }
        let mut acc: BTreeMap<(usize, usize), OPoly2<<P::K as Bridge>::O>> = BTreeMap::new();
        for (r, c, p) in &ex.d[k] {
            if let Some(v) = by_col.get(r) {
                for (r2, p2) in v {
                    let e = acc.entry((*r2, *c)).or_default();
                    for (k1, c1) in p.iter() { for (k2, c2) in p2.iter() { p_add(e, (k1.0 + k2.0, k1.1 + k2.1), c1.mul(c2)) } }
                }
            }
        }
        if acc.values().any(|p| !p.is_empty()) {
            ctx.violation(&format!("C05/{pname}/dd-nonzero"), &format!("d o d != 0 from degree {i}"), wit(json!({"degree": i})));
            return
        }
    }
    // (iii) evaluation commutes with the construction
    let pts: Vec<(i64, i64)> = [(0, 0), (1, 0), (2, 0), (-1, 0), (3, 0), (0, 1), (0, -1), (0, 2), (1, 1), (2, 3), (-1, 2), (3, -2)].into_iter()
        .filter(|&(h, t)| (uses_h || h == 0) && (uses_t || t == 0)).collect();
    let npts = ctx.by_tier(2, 4);
    for _ in 0..npts {
        let (h0, t0) = *rng.choose(&pts);
        // evaluated complex modulo a prime (characteristic of K, or a large prime for Z and Q)
        let p = match <P::K as Coef>::KIND { RingKind::Fp(p) => p, _ => BIG_P };
        let dims: Vec<usize> = ex.gens.iter().map(|g| g.len()).collect();
        let build = |as_int: bool| -> Option<SparseComplex> {
            let mut cx = SparseComplex::new(dims.clone());
            for (k, &i) in ex.degs.iter().enumerate() {
                if ex.degs.iter().position(|&j| j == i + 1) != Some(k + 1) && !ex.d[k].is_empty() { return None }
                for (r, c, poly) in &ex.d[k] {
                    let mut v: i128 = 0;
                    for (&(a, b), co) in poly {
                        let m = (h0 as i128).pow(a as u32) * (t0 as i128).pow(b as u32);
                        let cv: i128 = if as_int { <P::K as Coef>::to_int(co)? as i128 } else { <P::K as Coef>::to_mod(co, p) as i128 };
                        v += cv * if as_int { m } else { m.rem_euclid(p as i128) };
                        if !as_int { v = v.rem_euclid(p as i128) }
                    }
                    if as_int && v.abs() > i64::MAX as i128 / 4 { return None }
                    cx.add_entry(k, *r, *c, v as i64);
                }
            }
            Some(cx)
        };
        let contiguous = ex.degs.windows(2).all(|w| w[1] == w[0] + 1);
        if !contiguous { ctx.inconclusive("non_contiguous_support"); break }
        let shift = ex.degs.first().cloned().unwrap_or(0) as i64;
        let l3 = l.clone();
        let lib: Result<Total, _> = match <P::K as Coef>::KIND {
            RingKind::Z => guarded(move || kh_total::<i64>(&l3, h0, t0, reduced, &BuildCfg::default_cfg())),
            RingKind::Q => guarded(move || kh_total::<Ratio<i64>>(&l3, h0, t0, reduced, &BuildCfg::default_cfg())),
            RingKind::Fp(2) => guarded(move || kh_total::<FF<2>>(&l3, h0, t0, reduced, &BuildCfg::default_cfg())),
            _ => guarded(move || kh_total::<FF<3>>(&l3, h0, t0, reduced, &BuildCfg::default_cfg())),
        };
        let lib = match lib { Ok(x) => x, Err(e) => { if e.is_overflow() { ctx.inconclusive("overflow_machine_int"); continue } ctx.violation(&format!("C05/{pname}/panic"), &format!("direct computation at ({h0},{t0}) panicked: {}", e.brief()), wit(json!(null))); return } };
        let lib_ranks: BTreeMap<i64, usize> = lib.iter().filter(|(_, v)| v.0 > 0).map(|(k, v)| (*k, v.0)).collect();
        // ranks through a prime field
        let Some(cxp) = build(false) else { ctx.inconclusive("oracle_budget"); continue };
        let ev_ranks: BTreeMap<i64, usize> = match <P::K as Coef>::KIND {
            RingKind::Z => {
                // over Z compare the full answer when the integer complex is available, else ranks only
                match build(true).and_then(|c| c.homology_z().ok()) {
                    Some(hz) => {
                        let tot = oracle_total(&hz.into_iter().enumerate().map(|(k, (r, t))| (k as i64 + shift, r, t)).collect::<Vec<_>>());
                        if tot != lib {
                            ctx.violation(&format!("C05/{pname}/specialisation"), &format!("the complex built with polynomial parameters, evaluated at (h,t) = ({h0},{t0}), has homology {:?} but the complex built directly with ({h0},{t0}) has {:?}", tot, lib), wit(json!({"h": h0, "t": t0})));
                            return
                        }
                        ctx.count("specialisations_checked_with_torsion", 1);
                        continue
                    }
                    None => match cxp.homology_fp(p) { Ok(v) => v.into_iter().enumerate().filter(|x| x.1 > 0).map(|(k, r)| (k as i64 + shift, r)).collect(), Err(_) => { ctx.inconclusive("oracle_budget"); continue } },
                }
            }
            _ => match cxp.homology_fp(p) { Ok(v) => v.into_iter().enumerate().filter(|x| x.1 > 0).map(|(k, r)| (k as i64 + shift, r)).collect(), Err(_) => { ctx.inconclusive("oracle_budget"); continue } },
        };
        if ev_ranks != lib_ranks {
            ctx.violation(&format!("C05/{pname}/specialisation"), &format!("evaluating the polynomial complex at (h,t) = ({h0},{t0}) gives ranks {:?}, building directly gives {:?}", ev_ranks, lib_ranks), wit(json!({"h": h0, "t": t0})));
            return
        }
        ctx.count("specialisations_checked", 1);
    }
    let class = pname.clone();
    ctx.ok(&class, pd.n() >= 3, hash_of(&(&pd.x, &pd.neg, reduced)));
    if ctx.want_sample(&class) { ctx.sample(&class, json!({"config": conf, "pd": pd.x, "generators_per_degree": ex.gens.iter().map(|g| g.len()).collect::<Vec<_>>()})) }
}

pub fn run(ctx: &mut Ctx) {
    let n = ctx.by_tier(4_000u64, 40_000);
    macro_rules! go { ($t:ty, $m:expr) => { ctx.random_cases(&<$t as ParamRing>::pname(), n * $m / 2, |c, r| case::<$t>(c, r)); }; }
    go!(Poly<'H', i64>, 4);
    go!(Poly<'T', i64>, 2);
    go!(Poly2<'H', 'T', i64>, 4);
    go!(Poly<'H', Ratio<i64>>, 2);
    go!(Poly2<'H', 'T', Ratio<i64>>, 2);
    go!(Poly<'H', FF<2>>, 2);
    go!(Poly<'T', FF<2>>, 1);
    go!(Poly2<'H', 'T', FF<2>>, 2);
    go!(Poly<'H', FF<3>>, 2);
    go!(Poly2<'H', 'T', FF<3>>, 2);
    let _ = |x: &dyn Fn() -> bool| x();
}
