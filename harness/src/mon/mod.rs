use crate::ctx::Ctx;

pub mod c17;

pub fn dispatch(ctx: &mut Ctx) -> bool {
    match ctx.prop.as_str() {
        "C17" => c17::run(ctx),
        _ => return false,
    }
    true
}
