use crate::ctx::Ctx;

pub mod c01;
pub mod c02;
pub mod c03;
pub mod c04;
pub mod c05;
pub mod c06;
pub mod c07;
pub mod c08;
pub mod c09;
pub mod c10;
pub mod c11;
pub mod c12;
pub mod c13;
pub mod c14;
pub mod c15;
pub mod c16;
pub mod c17;
pub mod c18;
pub mod c19;
pub mod c20;

pub fn dispatch(ctx: &mut Ctx) -> bool {
    // thorough tier: several rounds over all workloads (see Ctx::round); quick and replay: one pass
    let rounds = if ctx.quick() || ctx.replaying() { 1 } else { 12 };
    ctx.rounds = rounds;
    for round in 0..rounds {
        ctx.round = round;
        if round > 0 && !ctx.time_left() { break }
        if !dispatch_once(ctx) { return false }
        ctx.count("rounds_completed_or_started", 1);
    }
    true
}

fn dispatch_once(ctx: &mut Ctx) -> bool {
    match ctx.prop.as_str() {
        "C01" => c01::run(ctx),
        "C02" => c02::run(ctx),
        "C03" => c03::run(ctx),
        "C04" => c04::run(ctx),
        "C05" => c05::run(ctx),
        "C06" => c06::run(ctx),
        "C07" => c07::run(ctx),
        "C08" => c08::run(ctx),
        "C09" => c09::run(ctx),
        "C10" => c10::run(ctx),
        "C11" => c11::run(ctx),
        "C12" => c12::run(ctx),
        "C13" => c13::run(ctx),
        "C14" => c14::run(ctx),
        "C15" => c15::run(ctx),
        "C16" => c16::run(ctx),
        "C17" => c17::run(ctx),
        "C18" => c18::run(ctx),
        "C19" => c19::run(ctx),
        "C20" => c20::run(ctx),
        // self-tests of the watchdog (not registered checks)
        "ZDEADLOCK" => ctx.case("block", 0, |_c, _r| { let (_tx, rx) = std::sync::mpsc::channel::<u8>(); let _ = rx.recv_timeout(std::time::Duration::from_secs(3600)); }),
        "ZSPIN" => ctx.case("spin", 0, |_c, _r| { let mut x = 0u64; loop { x = x.wrapping_mul(3).wrapping_add(1); if x == 7 { std::hint::black_box(x); } } }),
        _ => return false,
    }
    true
}
