use crate::ctx::Ctx;

pub mod c07;
pub mod c09;
pub mod c10;
pub mod c14;
pub mod c15;
pub mod c17;

pub fn dispatch(ctx: &mut Ctx) -> bool {
    match ctx.prop.as_str() {
        "C07" => c07::run(ctx),
        "C09" => c09::run(ctx),
        "C10" => c10::run(ctx),
        "C14" => c14::run(ctx),
        "C15" => c15::run(ctx),
        "C17" => c17::run(ctx),
        _ => return false,
    }
    true
}
