// C08 — chain reduction is a homotopy equivalence with correct transfer maps.
// Planted complexes (homology known by construction) are reduced by the real ChainReducer under
// every pivot strategy, shallow/deep schedules, per-degree tracking flags, tracked vectors,
// varying thread pools and schedule perturbation; the reduced differentials and the transfer
// maps are judged by the oracle's dense arithmetic; homology is recomputed by the oracle
// (over Z[H]: after specialising H and reducing mod p).

use std::collections::BTreeMap;
use std::sync::OnceLock;

use num_bigint::BigInt;
use serde_json::json;
use yui::poly::Poly;
use yui::{Ratio, Ring, RingOps, FF};
use yui_homology::utils::ChainReducer;
use yui_homology::{ChainComplexTrait, GenericChainComplex, GridTrait};
#[allow(unused_imports)]
use yui_homology::SummandTrait;
use yui_matrix::sparse::pivot::{PivotCondition, PivotType};
use yui_matrix::sparse::{SpMat, SpVec};
use yui_matrix::MatTrait;

use crate::bridge::{Bridge, Mag};
use crate::ctx::{guarded, hash_of, Ctx, Rng};
use crate::matx::*;
use crate::oracle::linalg::OMat;
use crate::oracle::num::*;
use crate::trace::{self, Policy};

fn pools() -> &'static BTreeMap<usize, rayon::ThreadPool> {
    static P: OnceLock<BTreeMap<usize, rayon::ThreadPool>> = OnceLock::new();
    P.get_or_init(|| [1usize, 2, 4, 8, 16].into_iter().map(|k| (k, rayon::ThreadPoolBuilder::new().num_threads(k).build().expect("pool"))).collect())
}

/// homology signature (rank, non-unit invariant factors of d_in) per degree of C_0 -> ... -> C_L over a Euclidean ring
fn homology_sig<O: OEuc>(dims: &[usize], d: &[OMat<O>]) -> Vec<(usize, Vec<O>)> {
    let l = d.len();
    let facs: Vec<Vec<O>> = d.iter().map(|m| m.snf_diag()).collect();
    (0..=l).map(|i| {
        let r_in = if i > 0 { facs[i - 1].len() } else { 0 };
        let r_out = if i < l { facs[i].len() } else { 0 };
        let tors = if i > 0 { facs[i - 1].iter().filter(|x| !x.is_unit()).cloned().collect() } else { vec![] };
        (dims[i] - r_in - r_out, tors)
    }).collect()
}

fn same_sig<O: OEuc>(a: &[(usize, Vec<O>)], b: &[(usize, Vec<O>)]) -> Option<usize> {
    (0..a.len()).find(|&i| a[i].0 != b[i].0 || a[i].1.len() != b[i].1.len() || a[i].1.iter().zip(b[i].1.iter()).any(|(x, y)| !x.associate(y)))
}

pub trait HomCmp: ORing {
    /// None if the two complexes have the same homology (as far as this ring allows to decide), else a description
    fn compare(dims_a: &[usize], a: &[OMat<Self>], dims_b: &[usize], b: &[OMat<Self>]) -> Option<String>;
}

macro_rules! euclid_cmp { ($t:ty) => {
    impl HomCmp for $t {
        fn compare(dims_a: &[usize], a: &[OMat<Self>], dims_b: &[usize], b: &[OMat<Self>]) -> Option<String> {
            let (sa, sb) = (homology_sig(dims_a, a), homology_sig(dims_b, b));
            same_sig(&sa, &sb).map(|i| format!("H_{i}: original rank {} torsion {:?}, reduced rank {} torsion {:?}", sa[i].0, sa[i].1.iter().map(|x| x.show()).collect::<Vec<_>>(), sb[i].0, sb[i].1.iter().map(|x| x.show()).collect::<Vec<_>>()))
        }
    }
}; }
euclid_cmp!(Z);
euclid_cmp!(Q);
euclid_cmp!(Fp<2>);
euclid_cmp!(Fp<3>);
euclid_cmp!(Fp<5>);

// Z[H]: specialise H to integers, and additionally reduce mod 2 and 3
impl HomCmp for OPoly<Z> {
    fn compare(dims_a: &[usize], a: &[OMat<Self>], dims_b: &[usize], b: &[OMat<Self>]) -> Option<String> {
        for h in [0i64, 1, 2, -1] {
            let ev = |m: &OMat<OPoly<Z>>| OMat::<Z>::from_fn(m.m, m.n, |i, j| m.at(i, j).eval(&z(h)));
            let (ea, eb): (Vec<_>, Vec<_>) = (a.iter().map(ev).collect(), b.iter().map(ev).collect());
            if let Some(msg) = Z::compare(dims_a, &ea, dims_b, &eb) { return Some(format!("after H := {h}: {msg}")) }
            let m2 = |m: &OMat<Z>| OMat::<Fp<2>>::from_fn(m.m, m.n, |i, j| Fp::<2>::from_z(m.at(i, j)));
            let m3 = |m: &OMat<Z>| OMat::<Fp<3>>::from_fn(m.m, m.n, |i, j| Fp::<3>::from_z(m.at(i, j)));
            if let Some(msg) = <Fp<2>>::compare(dims_a, &ea.iter().map(m2).collect::<Vec<_>>(), dims_b, &eb.iter().map(m2).collect::<Vec<_>>()) { return Some(format!("after H := {h} mod 2: {msg}")) }
            if let Some(msg) = <Fp<3>>::compare(dims_a, &ea.iter().map(m3).collect::<Vec<_>>(), dims_b, &eb.iter().map(m3).collect::<Vec<_>>()) { return Some(format!("after H := {h} mod 3: {msg}")) }
        }
        None
    }
}

struct Outcome<O> {
    mats: Vec<Option<OMat<O>>>,              // reduced d_i, i in 0..=L
    trans: Vec<Option<(OMat<O>, OMat<O>)>>,  // (F_i, B_i)
    vecs: Vec<Vec<Vec<O>>>,                  // tracked vectors after reduction
    log: Vec<String>,
}

fn case<T>(ctx: &mut Ctx, rng: &mut Rng, unbounded: bool, zh: bool)
where T: Ring + Bridge, for<'x> &'x T: RingOps<T>, T::O: OEuc + HomCmp {
    let len = rng.urange(1, ctx.by_tier(5, 6));
    let max_dim = ctx.by_tier(10, 16);
    let pal: Vec<T::O> = if zh { vec![T::O::from_i64(2), T::O::from_i64(3)] } else { crate::mon::c07::palette::<T>(rng, false) };
    let mix = if rng.chance(1, 6) { 0 } else { rng.urange(1, 2) };
    let tpct = *rng.choose(&[0usize, 20, 50]);
    let pc = planted_complex::<T>(rng, len, max_dim, Mag::Tiny, tpct, mix, &pal);
    check_complex::<T>(ctx, rng, unbounded, pc.dims.clone(), pc.d.clone(), json!({"family": "planted", "planted_ranks": pc.ranks}));
}

/// two-term complex whose single differential is a "starved" matrix (see C11): most rows reach the
/// parallel pivot phase with colliding candidates, so the reduction exercises the pivot race window
fn case_starved<T>(ctx: &mut Ctx, rng: &mut Rng, unbounded: bool)
where T: Ring + Bridge + crate::mon::c11::PivRing, for<'x> &'x T: RingOps<T>, T::O: OEuc + HomCmp {
    let Some(inp) = crate::mon::c11::gen_starved::<T>(rng, 20) else { return };
    let transpose = rng.chance(1, 2);
    let (m, n) = if transpose { (inp.n, inp.m) } else { (inp.m, inp.n) };
    let mut d = OMat::<T::O>::zero(m, n);
    for (i, j, v) in &inp.entries { let (i, j) = if transpose { (*j, *i) } else { (*i, *j) }; d.set(i, j, v.to_o()) }
    check_complex::<T>(ctx, rng, unbounded, vec![n, m], vec![d], json!({"family": "starved two-term", "transposed": transpose}));
}

/// two-term complex whose only +-1 entries lie in a leading r x r unitriangular block (upper or lower, so
/// that the pivots have to be reordered among themselves while rows / columns 0..r stay in front); the
/// blocks beside, below and diagonal to it hold non-units
fn case_leading_block<T>(ctx: &mut Ctx, rng: &mut Rng, unbounded: bool)
where T: Ring + Bridge, for<'x> &'x T: RingOps<T>, T::O: OEuc + HomCmp {
    let r = rng.urange(1, 4);
    let (m, n) = (r + rng.below(4), r + rng.below(4));
    let upper = rng.chance(1, 2);
    let mut d = OMat::<T::O>::zero(m, n);
    for i in 0..m { for j in 0..n {
        let v: i64 = if i < r && j < r {
            if i == j { if rng.chance(1, 2) { 1 } else { -1 } }
            else if (i < j) == upper { *rng.choose(&[0i64, 0, 1, -1, 2, 3]) } else { 0 }
        } else if rng.chance(1, 2) { 0 } else { *rng.choose(&[2i64, -2, 3, 4, 6]) };
        if v != 0 { d.set(i, j, T::O::from_i64(v)) }
    } }
    check_complex::<T>(ctx, rng, unbounded, vec![n, m], vec![d], json!({"family": "leading unitriangular block", "r": r, "upper": upper}));
}

fn check_complex<T>(ctx: &mut Ctx, rng: &mut Rng, unbounded: bool, dims: Vec<usize>, d_in: Vec<OMat<T::O>>, family: serde_json::Value)
where T: Ring + Bridge, for<'x> &'x T: RingOps<T>, T::O: OEuc + HomCmp {
    let tname = T::name();
    let len = d_in.len();
    struct Pc<O> { d: Vec<OMat<O>> }
    let pc = Pc { d: d_in };
    for i in 0..len.saturating_sub(1) { assert!(pc.d[i + 1].mul(&pc.d[i]).is_zero(), "generator: d^2 != 0") }
    let mut lib: Vec<SpMat<T>> = vec![];
    for m in &pc.d { match o_to_sp::<T>(m) { Some(x) => lib.push(x), None => { ctx.inconclusive("generator_unrepresentable"); return } } }
    lib.push(SpMat::zero((0, dims[len])));
    // full list of original differentials incl. the trailing zero map
    let mut d_all: Vec<OMat<T::O>> = pc.d.clone();
    d_all.push(OMat::zero(0, dims[len]));

    let route = rng.below(3);
    let nthreads = *rng.choose(&[1usize, 2, 4, 8, 16]);
    let policy = *rng.choose(&[Policy::None, Policy::SleepBeforeLock, Policy::Herd, Policy::SleepColStart]);
    let flags: Vec<bool> = (0..=len).map(|_| route != 1 || rng.chance(3, 4)).collect();
    let uniform = rng.chance(1, 2);
    let flags: Vec<bool> = if route == 1 && !uniform { flags } else { vec![true; len + 1] };
    // tracked vectors
    let tracked: Vec<Vec<Vec<T::O>>> = (0..=len).map(|i| (0..if route == 1 { rng.below(3) } else { 0 }).map(|_| (0..dims[i]).map(|_| if rng.chance(1, 2) { T::gen(rng, Mag::Tiny) } else { T::O::o0() }).collect()).collect()).collect();
    // schedule for the manual route
    let nsteps = rng.urange(1, 8);
    let schedule: Vec<(usize, usize, usize, usize)> = (0..nsteps).map(|_| (rng.below(4), rng.below(len + 1), rng.below(2), rng.below(5))).collect();
    // ChainComplexBase::reduced: half of the time applied twice (the second call starts from summands that already
    // carry a transfer map; the result must still be a reduction of the ORIGINAL complex)
    let twice = route == 2 && rng.chance(1, 2);
    let route_name = if twice { "ChainComplexBase::reduced().reduced()" } else { ["ChainReducer::reduce", "manual schedule", "ChainComplexBase::reduced"][route] };
    let cfg = json!({"ring": tname, "dims": dims, "input": family, "route": route_name,
        "threads": nthreads, "policy": format!("{:?}", policy), "track_flags": flags, "schedule": schedule});
    let show_d: Vec<String> = pc.d.iter().map(|m| m.show()).collect();
    let wit = |extra: serde_json::Value| json!({"config": cfg, "d": show_d, "detail": extra});

    let lib2 = lib.clone();
    let (flags2, tracked2, schedule2) = (flags.clone(), tracked.clone(), schedule.clone());
    let pool = &pools()[&nthreads];
    trace::set_policy(policy, rng.next_u64(), nthreads.min(4));
    let l = len as isize;
    let res = guarded(move || pool.install(move || -> Option<Outcome<T::O>> {
        let mut log = vec![];
        let lib3 = lib2.clone();
        let c = GenericChainComplex::<T>::generate(0..=l, 1, move |i| lib3[i as usize].clone());
        let conds = [PivotCondition::One, PivotCondition::AnyUnit, PivotCondition::Weight(1.0), PivotCondition::Weight(2.0), PivotCondition::Weight(5.0)];
        if route == 2 {
            let r = if twice { c.reduced().reduced() } else { c.reduced() };
            let mut out = Outcome { mats: vec![], trans: vec![], vecs: vec![vec![]; (l + 1) as usize], log };
            for i in 0..=l {
                out.mats.push(Some(sp_to_o(&r.d_matrix(i))));
                let t = r[i].trans();
                out.trans.push(Some((sp_to_o(&t.forward_mat()), sp_to_o(&t.backward_mat()))));
            }
            return Some(out)
        }
        let mut red: ChainReducer<isize, T> = if route == 0 { ChainReducer::reduce(&c, true) } else {
            let mut red = ChainReducer::new(0..=l, 1);
            for i in 0..=l { red.set_matrix(i, lib2[i as usize].clone(), flags2[i as usize]) }
            for i in 0..=l { for v in &tracked2[i as usize] {
                let e: Option<Vec<(usize, T)>> = v.iter().enumerate().filter(|(_, x)| !x.is0()).map(|(k, x)| T::try_from_o(x).map(|y| (k, y))).collect();
                red.add_vec(i, SpVec::from_entries(v.len(), e?));
            } }
            for &(op, i, ty, cd) in &schedule2 {
                let i = i as isize;
                match op {
                    0 => { log.push("reduce_all(shallow)".to_string()); red.reduce_all(false) }
                    1 => { log.push("reduce_all(deep)".to_string()); red.reduce_all(true) }
                    2 => { log.push(format!("reduce_at({i}, deep={})", ty == 1)); red.reduce_at(i, ty == 1) }
                    _ => {
                        let pt = if ty == 0 { PivotType::Rows } else { PivotType::Cols };
                        log.push(format!("reduce_at_spec({i}, {:?}, {:?})", pt, conds[cd]));
                        red.reduce_at_spec(i, pt, conds[cd]);
                    }
                }
            }
            red
        };
        let _ = &mut red;
        let mut out = Outcome { mats: vec![], trans: vec![], vecs: vec![], log };
        for i in 0..=l {
            out.mats.push(red.matrix(i).map(sp_to_o));
            out.trans.push(red.trans(i).map(|t| (sp_to_o(&t.forward_mat()), sp_to_o(&t.backward_mat()))));
            out.vecs.push(red.vecs(i).map(|vs| vs.iter().map(spvec_to_o).collect()).unwrap_or_default());
        }
        Some(out)
    }));
    trace::set_policy(Policy::None, 0, 2);
    let out = match res {
        Ok(Some(o)) => o,
        Ok(None) => { ctx.inconclusive("generator_unrepresentable"); return }
        Err(p) => {
            if !unbounded && p.is_overflow() { ctx.inconclusive("overflow_machine_int"); return }
            ctx.violation(&format!("C08/{tname}/panic"), &format!("chain reduction panicked ({} threads, {:?}): {}", nthreads, policy, p.brief()), wit(json!(null)));
            return
        }
    };

    let mut bad: Option<(&str, String)> = None;
    macro_rules! fail { ($k:expr, $msg:expr) => { if bad.is_none() { bad = Some(($k, $msg)) } }; }
    let red: Vec<OMat<T::O>> = match out.mats.iter().cloned().collect::<Option<Vec<_>>>() { Some(v) => v, None => { fail!("missing-matrix", "a reduced differential is missing".into()); vec![] } };
    let mut pivots_found = 0usize;
    if bad.is_none() {
        let rdims: Vec<usize> = (0..=len).map(|i| red[i].n).collect();
        for i in 0..len {
            if red[i].m != rdims[i + 1] { fail!("shape", format!("reduced d_{i} is {}x{} but C'_{} has rank {}", red[i].m, red[i].n, i + 1, rdims[i + 1])) }
        }
        for i in 0..=len { if rdims[i] > dims[i] { fail!("shape", format!("C'_{i} has rank {} > {}", rdims[i], dims[i])) } pivots_found += dims[i] - rdims[i].min(dims[i]) }
        if bad.is_none() {
            for i in 0..len { if i + 1 <= len && !(red[i + 1].n == red[i].m && red[i + 1].mul(&red[i]).is_zero()) && i + 1 < len + 1 && red[i + 1].m > 0 { fail!("dd-nonzero", format!("d'_{} d'_{} != 0", i + 1, i)) } }
        }
        if bad.is_none() {
            for i in 0..=len {
                if let Some((f, b)) = &out.trans[i] {
                    if (f.m, f.n, b.m, b.n) != (rdims[i], dims[i], dims[i], rdims[i]) { fail!("trans-shape", format!("transfer maps at degree {i} have shapes {}x{}, {}x{}", f.m, f.n, b.m, b.n)) }
                    else if !f.mul(b).is_id() { fail!("fb-not-id", format!("f_{i} b_{i} != id on the reduced complex")) }
                    else {
                        for (k, v) in tracked[i].iter().enumerate() {
                            let vo = OMat { m: dims[i], n: 1, d: v.clone() };
                            let exp = f.mul(&vo).d;
                            if out.vecs[i].get(k) != Some(&exp) { fail!("tracked-vector", format!("tracked vector {k} in degree {i} is not the forward image of the original vector")) }
                        }
                    }
                    if i < len { if let Some((f1, b1)) = &out.trans[i + 1] {
                        if bad.is_none() && f1.mul(&d_all[i]) != red[i].mul(f) { fail!("f-not-chain-map", format!("f_{} d_{i} != d'_{i} f_{i}", i + 1)) }
                        if bad.is_none() && d_all[i].mul(b) != b1.mul(&red[i]) { fail!("b-not-chain-map", format!("d_{i} b_{i} != b_{} d'_{i}", i + 1)) }
                    } }
                } else if flags[i] && route != 2 { fail!("missing-trans", format!("no transfer map at tracked degree {i}")) }
            }
        }
        if bad.is_none() {
            let red_d: Vec<OMat<T::O>> = red[..len].to_vec();
            if let Some(msg) = <T::O as HomCmp>::compare(&dims, &pc.d, &rdims, &red_d) { fail!("homology-changed", msg) }
        }
    }
    if let Some((k, msg)) = bad {
        ctx.violation(&format!("C08/{tname}/{k}"), &msg, wit(json!({"ops": out.log, "reduced": red.iter().map(|m| m.show()).collect::<Vec<_>>()})));
        return
    }
    ctx.count("generators_cancelled", pivots_found as i64);
    ctx.count(&format!("route/{}", route), 1);
    let class = format!("{tname}/route{route}");
    ctx.ok(&class, pivots_found >= 1 && len >= 2, hash_of(&(&show_d, route, &schedule, &flags)));
    if ctx.want_sample(&class) { ctx.sample(&class, json!({"config": cfg, "ops": out.log, "cancelled": pivots_found})) }
}

pub fn run(ctx: &mut Ctx) {
    let n = ctx.by_tier(48_000u64, 1_200_000);
    ctx.random_cases("i64", n, |c, r| case::<i64>(c, r, false, false));
    ctx.random_cases("BigInt", n / 2, |c, r| case::<BigInt>(c, r, true, false));
    ctx.random_cases("Ratio<i64>", n, |c, r| case::<Ratio<i64>>(c, r, false, false));
    ctx.random_cases("FF<2>", n / 2, |c, r| case::<FF<2>>(c, r, true, false));
    ctx.random_cases("FF<3>", n / 2, |c, r| case::<FF<3>>(c, r, true, false));
    ctx.random_cases("FF<5>", n / 2, |c, r| case::<FF<5>>(c, r, true, false));
    ctx.random_cases("Poly<H,i64>", n, |c, r| case::<Poly<'H', i64>>(c, r, false, true));
    ctx.random_cases("i64/leading-block", n / 2, |c, r| case_leading_block::<i64>(c, r, false));
    ctx.random_cases("Ratio<i64>/leading-block", n / 4, |c, r| case_leading_block::<Ratio<i64>>(c, r, false));
    ctx.random_cases("FF<5>/leading-block", n / 4, |c, r| case_leading_block::<FF<5>>(c, r, true));
    ctx.random_cases("i64/starved", n / 2, |c, r| case_starved::<i64>(c, r, false));
    ctx.random_cases("Ratio<i64>/starved", n / 4, |c, r| case_starved::<Ratio<i64>>(c, r, false));
    let _ = (|| { let m: SpMat<i64> = SpMat::zero((0, 0)); (m.shape(), GenericChainComplex::<i64>::zero().rank(0)) })();
}
