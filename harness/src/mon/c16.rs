// C16 — polynomial and linear-combination types form the free algebra they denote.
// Reference model: BTreeMap<exponent vector, coefficient> (coefficients in the oracle's number types)
// with the definition of +, -, *, scalar multiplication; own lex / graded-lex comparison on exponent
// vectors; evaluation by BigInt arithmetic.

use std::cmp::Ordering;
use num_traits::Zero;
use std::collections::BTreeMap;

use serde_json::json;
use yui::lc::{Free, Lc};
use yui::poly::{Mono, MonoOrd, MultiVar, PolyBase, Var, Var2, Var3};
use yui::{GaussInt, Ratio, Ring, RingOps, FF};

use crate::bridge::{Bridge, Mag};
use crate::ctx::{guarded, hash_of, Ctx, Rng};
use crate::oracle::num::*;

pub trait MonoKind: Mono + Clone + std::fmt::Debug + Send + Sync + 'static {
    const NV: usize;
    const LAURENT: bool;
    fn kname() -> &'static str;
    fn from_exps(e: &[i64]) -> Self;
    fn exps(&self) -> Vec<i64>;
    /// Some(msg) if the monomial stores something non-canonical (e.g. a zero exponent)
    fn canon_err(&self) -> Option<String> { None }
}

impl MonoKind for Var<'x', usize> { const NV: usize = 1; const LAURENT: bool = false; fn kname() -> &'static str { "Var<usize>" } fn from_exps(e: &[i64]) -> Self { Var::from(e[0] as usize) } fn exps(&self) -> Vec<i64> { vec![self.deg() as i64] } }
impl MonoKind for Var<'x', isize> { const NV: usize = 1; const LAURENT: bool = true; fn kname() -> &'static str { "Var<isize>" } fn from_exps(e: &[i64]) -> Self { Var::from(e[0] as isize) } fn exps(&self) -> Vec<i64> { vec![self.deg() as i64] } }
impl MonoKind for Var2<'x', 'y', usize> { const NV: usize = 2; const LAURENT: bool = false; fn kname() -> &'static str { "Var2<usize>" } fn from_exps(e: &[i64]) -> Self { Var2::from((e[0] as usize, e[1] as usize)) } fn exps(&self) -> Vec<i64> { let d = self.deg(); vec![d.0 as i64, d.1 as i64] } }
impl MonoKind for Var2<'x', 'y', isize> { const NV: usize = 2; const LAURENT: bool = true; fn kname() -> &'static str { "Var2<isize>" } fn from_exps(e: &[i64]) -> Self { Var2::from((e[0] as isize, e[1] as isize)) } fn exps(&self) -> Vec<i64> { let d = self.deg(); vec![d.0 as i64, d.1 as i64] } }
impl MonoKind for Var3<'x', 'y', 'z', usize> { const NV: usize = 3; const LAURENT: bool = false; fn kname() -> &'static str { "Var3<usize>" } fn from_exps(e: &[i64]) -> Self { Var3::from((e[0] as usize, e[1] as usize, e[2] as usize)) } fn exps(&self) -> Vec<i64> { let d = self.deg(); vec![d.0 as i64, d.1 as i64, d.2 as i64] } }
impl MonoKind for Var3<'x', 'y', 'z', isize> { const NV: usize = 3; const LAURENT: bool = true; fn kname() -> &'static str { "Var3<isize>" } fn from_exps(e: &[i64]) -> Self { Var3::from((e[0] as isize, e[1] as isize, e[2] as isize)) } fn exps(&self) -> Vec<i64> { let d = self.deg(); vec![d.0 as i64, d.1 as i64, d.2 as i64] } }
impl MonoKind for MultiVar<'x', usize> {
    const NV: usize = 4; const LAURENT: bool = false;
    fn kname() -> &'static str { "MultiVar<usize>" }
    fn from_exps(e: &[i64]) -> Self { MultiVar::from_iter(e.iter().enumerate().map(|(i, &d)| (i, d as usize))) }
    fn exps(&self) -> Vec<i64> { (0..4).map(|i| self.deg_for(i) as i64).collect() }
    fn canon_err(&self) -> Option<String> { let d = self.deg(); let x = d.iter().find(|(_, e)| **e == 0).map(|(i, _)| format!("exponent map stores a zero exponent for index {i}")); x }
}
impl MonoKind for MultiVar<'x', isize> {
    const NV: usize = 4; const LAURENT: bool = true;
    fn kname() -> &'static str { "MultiVar<isize>" }
    fn from_exps(e: &[i64]) -> Self { MultiVar::from_iter(e.iter().enumerate().map(|(i, &d)| (i, d as isize))) }
    fn exps(&self) -> Vec<i64> { (0..4).map(|i| self.deg_for(i) as i64).collect() }
    fn canon_err(&self) -> Option<String> { let d = self.deg(); let x = d.iter().find(|(_, e)| **e == 0).map(|(i, _)| format!("exponent map stores a zero exponent for index {i}")); x }
}

type Model<O> = BTreeMap<Vec<i64>, O>;

fn m_add<O: ORing>(a: &mut Model<O>, k: Vec<i64>, c: O) { let cur = a.remove(&k).unwrap_or(O::o0()); let s = cur.add(&c); if !s.is0() { a.insert(k, s); } }
fn m_sum<O: ORing>(a: &Model<O>, b: &Model<O>, neg: bool) -> Model<O> { let mut r = a.clone(); for (k, c) in b { m_add(&mut r, k.clone(), if neg { c.neg() } else { c.clone() }) } r }
fn m_mul<O: ORing>(a: &Model<O>, b: &Model<O>) -> Model<O> {
    let mut r = Model::new();
    for (k1, c1) in a { for (k2, c2) in b { let k: Vec<i64> = k1.iter().zip(k2.iter()).map(|(x, y)| x + y).collect(); m_add(&mut r, k, c1.mul(c2)) } }
    r
}
fn m_scale<O: ORing>(a: &Model<O>, c: &O) -> Model<O> { let mut r = Model::new(); for (k, x) in a { m_add(&mut r, k.clone(), x.mul(c)) } r }
fn own_grlex(a: &[i64], b: &[i64]) -> Ordering { a.iter().sum::<i64>().cmp(&b.iter().sum::<i64>()).then_with(|| a.cmp(b)) }
fn m_show<O: ORing>(a: &Model<O>) -> String { if a.is_empty() { "0".into() } else { a.iter().map(|(k, c)| format!("{}*x^{:?}", c.show(), k)).collect::<Vec<_>>().join(" + ") } }

fn gen_exps<X: MonoKind>(rng: &mut Rng) -> Vec<i64> {
    (0..X::NV).map(|_| if rng.chance(1, 3) { 0 } else if X::LAURENT { rng.range(-3, 3) } else { rng.range(0, 3) }).collect()
}

fn gen_model<X: MonoKind, T: Bridge>(rng: &mut Rng) -> Model<T::O> {
    let mut m = Model::new();
    match rng.below(8) {
        0 => {}                                                    // zero
        1 => { m_add(&mut m, vec![0; X::NV], T::O::o1()) }         // one
        2 => { m_add(&mut m, vec![0; X::NV], T::gen(rng, Mag::Small)) } // constant
        _ => { for _ in 0..rng.urange(1, 5) { let e = gen_exps::<X>(rng); m_add(&mut m, e, T::gen(rng, Mag::Small)) } }
    }
    m
}

fn to_lib<X: MonoKind, T>(m: &Model<T::O>, rng: &mut Rng) -> Option<PolyBase<X, T>>
where T: Ring + Bridge, for<'x> &'x T: RingOps<T> {
    // the term list may contain duplicates that sum to the coefficient, and explicit zero terms
    let mut terms: Vec<(X, T)> = vec![];
    for (k, c) in m {
        if rng.chance(1, 4) {
            let d = T::gen(rng, Mag::Tiny);
            terms.push((X::from_exps(k), T::try_from_o(&d)?));
            terms.push((X::from_exps(k), T::try_from_o(&c.sub(&d))?));
        } else { terms.push((X::from_exps(k), T::try_from_o(c)?)) }
    }
    if rng.chance(1, 4) { terms.push((X::from_exps(&gen_exps::<X>(rng)), T::zero())) }
    rng.shuffle(&mut terms);
    Some(PolyBase::from_iter(terms))
}

fn observe<X: MonoKind, T>(p: &PolyBase<X, T>, m: &Model<T::O>) -> Option<String>
where T: Ring + Bridge, for<'x> &'x T: RingOps<T> {
    let mut got: Model<T::O> = Model::new();
    let mut stored = 0;
    for (x, c) in p.iter() {
        stored += 1;
        if c.is_zero() { return Some(format!("a zero coefficient is stored for the monomial with exponents {:?}", x.exps())) }
        if let Some(e) = x.canon_err() { return Some(e) }
        if got.insert(x.exps(), c.to_o()).is_some() { return Some(format!("the monomial with exponents {:?} is stored twice", x.exps())) }
    }
    if &got != m { return Some(format!("terms {} differ from the polynomial {}", m_show(&got), m_show(m))) }
    if p.nterms() != m.len() || stored != m.len() { return Some(format!("nterms = {} but the polynomial has {} terms", p.nterms(), m.len())) }
    if p.is_zero() != m.is_empty() { return Some(format!("is_zero = {} for {}", p.is_zero(), m_show(m))) }
    let one = m.len() == 1 && m.get(&vec![0; X::NV]).map(|c| c.is1()).unwrap_or(false);
    if num_traits::One::is_one(p) != one { return Some(format!("is_one = {} for {}", !one, m_show(m))) }
    if let Some((k, c)) = m.iter().max_by(|a, b| own_grlex(a.0, b.0)) {
        let (lx, lc) = p.lead_term();
        if &lx.exps() != k || &lc.to_o() != c { return Some(format!("lead_term has exponents {:?}, graded-lex maximum is {:?}", lx.exps(), k)) }
        if &p.lead_coeff().to_o() != c { return Some(format!("lead_coeff differs from the coefficient of the graded-lex maximal term {:?}", k)) }
        if &X::from(p.lead_deg()).exps() != k { return Some(format!("lead_deg differs from the degree of the graded-lex maximal term {:?}", k)) }
    }
    // accessors: coefficient lookup (present and absent monomials), constant term, is_const, is_mono / as_mono
    let zero_exps = vec![0i64; X::NV];
    for (k, c) in m.iter().take(4) {
        if &p.coeff(&X::from_exps(k)).to_o() != c { return Some(format!("coeff({:?}) differs from the stored term", k)) }
        if &p.coeff_for(X::from_exps(k).deg()).to_o() != c { return Some(format!("coeff_for(degree of {:?}) differs from the stored term", k)) }
    }
    let absent: Vec<i64> = (0..X::NV).map(|i| 7 + i as i64).collect();
    if !m.contains_key(&absent) && !p.coeff(&X::from_exps(&absent)).is_zero() { return Some(format!("coeff of the absent monomial {:?} is not zero", absent)) }
    let c0 = m.get(&zero_exps).cloned().unwrap_or_else(T::O::o0);
    if p.const_term().to_o() != c0 { return Some(format!("const_term = {:?}, the polynomial's constant term is {:?}", p.const_term().to_o(), c0)) }
    if p.is_const() != m.keys().all(|k| k == &zero_exps) { return Some(format!("is_const = {} for {}", p.is_const(), m_show(m))) }
    if &p.map_coeffs::<T, _>(|c| c.clone()) != p { return Some("map_coeffs(identity) is not the same polynomial".into()) }
    // constructors / conversions: consuming iteration, From<Lc>, FromIterator over the own terms (in reverse order and
    // with one term split in two), From<(X, R)> / From<X> / from_const on single terms
    {
        let terms: Model<T::O> = p.clone().into_iter().map(|(x, c)| (x.exps(), c.to_o())).collect();
        if &terms != m { return Some("IntoIterator (by value) yields different terms".into()) }
        if &PolyBase::<X, T>::from(p.inner().clone()) != p { return Some("From<Lc> of the inner linear combination is a different polynomial".into()) }
        let mut ts: Vec<(X, T)> = p.iter().map(|(x, c)| (x.clone(), c.clone())).collect();
        ts.reverse();
        if let Some((x0, c0)) = ts.first().cloned() { ts[0] = (x0.clone(), &c0 - &T::one()); ts.push((x0, T::one())); }
        if &ts.into_iter().collect::<PolyBase<X, T>>() != p { return Some("FromIterator over the own terms (reordered, one term split in two) is a different polynomial".into()) }
        if let Some((k, c)) = m.iter().next() {
            let x = X::from_exps(k);
            if let Some(cl) = T::try_from_o(c) {
                let single = PolyBase::<X, T>::from((x.clone(), cl.clone()));
                if single.nterms() != 1 || &single.coeff(&x).to_o() != c { return Some("From<(X, R)> does not build the single term".into()) }
                let mono1 = PolyBase::<X, T>::from(x.clone());
                if !mono1.is_mono() || !mono1.coeff(&x).is_one() { return Some("From<X> does not build the monomial with coefficient one".into()) }
                let cst = PolyBase::<X, T>::from_const(cl);
                if !cst.is_const() || &cst.const_term().to_o() != c { return Some("from_const does not build the constant polynomial".into()) }
            }
        }
    }
    let mono = m.len() == 1 && m.values().next().map(|c| c.is1()).unwrap_or(false);
    if p.is_mono() != mono { return Some(format!("is_mono = {} for {}", p.is_mono(), m_show(m))) }
    match (p.as_mono(), mono) {
        (Some(x), true) => { if Some(&x.exps()) != m.keys().next() { return Some("as_mono returns a different monomial".into()) } }
        (None, false) => {}
        (a, _) => return Some(format!("as_mono is {} for {}", if a.is_some() { "Some" } else { "None" }, m_show(m))),
    }
    None
}

fn history<X: MonoKind, T>(ctx: &mut Ctx, rng: &mut Rng)
where T: Ring + Bridge, for<'x> &'x T: RingOps<T> {
    let name = format!("{}/{}", X::kname(), T::name());
    let steps = rng.urange(5, 30);
    let mut hist: Vec<String> = vec![];
    let mut pool: Vec<(PolyBase<X, T>, Model<T::O>)> = vec![];
    let mut cancelled = false;
    macro_rules! bail { ($k:expr, $msg:expr) => {{ ctx.violation(&format!("C16/{name}/{}", $k), &$msg, json!({"type": name, "history": hist})); return }}; }
    for k in 0..3 {
        let m = gen_model::<X, T>(rng);
        let Some(p) = to_lib::<X, T>(&m, rng) else { ctx.inconclusive("generator_unrepresentable"); return };
        hist.push(format!("p{k} = {}", m_show(&m)));
        if let Some(e) = observe(&p, &m) { bail!("construct", format!("after construction: {e}")) }
        pool.push((p, m));
    }
    for _ in 0..steps {
        let (i, j) = (rng.below(pool.len()), rng.below(pool.len()));
        let ((a, am), (b, bm)) = (pool[i].clone(), pool[j].clone());
        let op = rng.below(9);
        let form = rng.below(4);
        let (desc, exp): (String, Model<T::O>) = match op {
            0 => (format!("p{i} + p{j}"), m_sum(&am, &bm, false)),
            1 => (format!("p{i} - p{j}"), m_sum(&am, &bm, true)),
            2 | 3 => (format!("p{i} * p{j}"), m_mul(&am, &bm)),
            4 => (format!("-p{i}"), m_scale(&am, &T::O::o1().neg())),
            5 => (format!("p{i} + p{j} - p{j}"), am.clone()),
            6 => (format!("(p{i} - p{i}) * p{j}"), Model::new()),
            7 => (format!("(p{i} + p{j}) * (p{i} - p{j})"), m_mul(&m_sum(&am, &bm, false), &m_sum(&am, &bm, true))),
            _ => (format!("p{i} * scalar"), am.clone()),
        };
        let scalar = T::gen(rng, Mag::Small);
        let exp = if op == 8 { m_scale(&am, &scalar) } else { exp };
        let Some(sl) = T::try_from_o(&scalar) else { ctx.inconclusive("generator_unrepresentable"); return };
        hist.push(format!("p{} = {desc} [form {form}]", pool.len()));
        if exp.len() < am.len().max(bm.len()) || (op == 7) { cancelled = true }
        let r = guarded(|| match op {
            0 => match form { 0 => &a + &b, 1 => a.clone() + b.clone(), 2 => { let mut x = a.clone(); x += &b; x } _ => a.clone() + &b },
            1 => match form { 0 => &a - &b, 1 => a.clone() - b.clone(), 2 => { let mut x = a.clone(); x -= &b; x } _ => &a - b.clone() },
            2 | 3 => match form { 0 => &a * &b, 1 => a.clone() * b.clone(), 2 => { let mut x = a.clone(); x *= &b; x } _ => { let mut x = a.clone(); x *= b.clone(); x } },
            4 => if form % 2 == 0 { -&a } else { -a.clone() },
            5 => { let mut x = &a + &b; x -= &b; x }
            6 => (&a - &a) * &b,
            7 => (&a + &b) * (&a - &b),
            _ => { let mut x = a.clone(); x *= &sl; x }
        });
        match r {
            Ok(p) => {
                if let Some(e) = observe(&p, &exp) { bail!(format!("op{op}"), format!("after `{desc}` (form {form}): {e}")) }
                // equality with values reached through other histories
                for (q, qm) in pool.iter() { if (q == &p) != (qm == &exp) { bail!("eq", format!("== returned {} for {} and {}", q == &p, m_show(qm), m_show(&exp))) } }
                if let Some(q) = to_lib::<X, T>(&exp, rng) { if q != p { bail!("eq", format!("the value of `{desc}` is not == to the same polynomial built from its terms: {}", m_show(&exp))) } }
                // keep the pool small: big products are checked but not fed back (term explosion)
                if exp.len() <= 24 { if pool.len() < 6 { pool.push((p, exp)) } else { let k = rng.below(pool.len()); pool[k] = (p, exp) } }
            }
            Err(e) => {
                if T::bounded() && e.is_overflow() { ctx.inconclusive("overflow_machine_int"); return }
                bail!(format!("op{op}/panic"), format!("`{desc}` panicked: {}", e.brief()))
            }
        }
    }
    ctx.ok(&name, cancelled || X::NV >= 2, hash_of(&hist));
    if cancelled { ctx.count("histories_with_cancellation", 1) }
    if ctx.want_sample(&name) { ctx.sample(&name, json!({"history": hist.iter().take(8).collect::<Vec<_>>()})) }
}

fn orders<X: MonoKind>(ctx: &mut Ctx, rng: &mut Rng) {
    let name = X::kname();
    let (ea, eb, ec, ed) = (gen_exps::<X>(rng), gen_exps::<X>(rng), gen_exps::<X>(rng), gen_exps::<X>(rng));
    // related monomials: same support / permuted exponents / equal total degree
    let eb = match rng.below(4) { 0 => ea.clone(), 1 => { let mut v = ea.clone(); v.reverse(); v } 2 => { let mut v = ea.clone(); if X::NV >= 2 { v.swap(0, X::NV - 1) } v } _ => eb };
    let (a, b, c, d) = (X::from_exps(&ea), X::from_exps(&eb), X::from_exps(&ec), X::from_exps(&ed));
    let wit = json!({"mono": name, "a": ea, "b": eb, "c": ec, "d": ed});
    for (oname, f) in [("lex", X::cmp_lex as fn(&X, &X) -> Ordering), ("grlex", X::cmp_grlex as fn(&X, &X) -> Ordering)] {
        let r = guarded(|| (f(&a, &b), f(&b, &a), f(&a, &a), f(&b, &c), f(&a, &c), f(&(a.clone() * d.clone()), &(b.clone() * d.clone()))));
        match r {
            Ok((ab, ba, aa, bc, ac, adbd)) => {
                let mut bad: Option<String> = None;
                if ab != ba.reverse() { bad = Some(format!("cmp(a,b) = {:?} but cmp(b,a) = {:?}", ab, ba)) }
                else if aa != Ordering::Equal { bad = Some("cmp(a,a) != Equal".into()) }
                else if (ab == Ordering::Equal) != (ea == eb) { bad = Some(format!("cmp(a,b) = {:?} although a {} b", ab, if ea == eb { "==" } else { "!=" })) }
                else if ab == bc && ab != Ordering::Equal && ac != ab { bad = Some(format!("not transitive: cmp(a,b) = cmp(b,c) = {:?} but cmp(a,c) = {:?}", ab, ac)) }
                else if adbd != ab { bad = Some(format!("not compatible with multiplication: cmp(a,b) = {:?} but cmp(ad,bd) = {:?}", ab, adbd)) }
                else if oname == "grlex" && ea.iter().sum::<i64>() != eb.iter().sum::<i64>() && ab != ea.iter().sum::<i64>().cmp(&eb.iter().sum::<i64>()) { bad = Some("graded order does not compare total degrees first".into()) }
                if let Some(msg) = bad { ctx.violation(&format!("C16/{name}/{oname}"), &format!("{oname}: {msg}"), wit.clone()); return }
            }
            Err(e) => { ctx.violation(&format!("C16/{name}/{oname}/panic"), &format!("panicked: {}", e.brief()), wit.clone()); return }
        }
    }
    ctx.ok(&format!("{name}/orders"), ea != eb, hash_of(&(&ea, &eb, &ec, &ed)));
}

fn eval_case(ctx: &mut Ctx, rng: &mut Rng) {
    // evaluation is a ring homomorphism (integer coefficients, one to three variables)
    type P1 = PolyBase<Var<'x', usize>, i64>;
    type P2 = PolyBase<Var2<'x', 'y', usize>, i64>;
    type P3 = PolyBase<Var3<'x', 'y', 'z', usize>, i64>;
    let pts: Vec<i64> = (0..3).map(|_| rng.range(-4, 4)).collect();
    let model_eval = |m: &Model<Z>, nv: usize| -> Z { let mut s = z(0); for (k, c) in m { let mut t = c.clone(); for v in 0..nv { for _ in 0..k[v] { t = t * z(pts[v]) } } s += t } s };
    macro_rules! go { ($p:ty, $x:ty, $nv:expr, $call:expr) => {{
        let (am, bm) = (gen_model::<$x, i64>(rng), gen_model::<$x, i64>(rng));
        let (Some(a), Some(b)) = (to_lib::<$x, i64>(&am, rng), to_lib::<$x, i64>(&bm, rng)) else { return };
        let f: fn(&$p, &[i64]) -> i64 = $call;
        let pts2 = pts.clone();
        match guarded(move || (f(&a, &pts2), f(&b, &pts2), f(&(&a + &b), &pts2), f(&(&a * &b), &pts2))) {
            Ok((ea, eb, es, ep)) => {
                let (ma, mb) = (model_eval(&am, $nv), model_eval(&bm, $nv));
                if z(ea) != ma || z(eb) != mb || z(es) != &ma + &mb || z(ep) != &ma * &mb {
                    ctx.violation(&format!("C16/eval/{}vars", $nv), &format!("eval at {:?}: p -> {ea}, q -> {eb}, p+q -> {es}, p*q -> {ep}; by definition {ma}, {mb}", &pts[..$nv]), json!({"p": m_show(&am), "q": m_show(&bm), "point": pts}));
                    return
                }
                ctx.ok(&format!("eval/{}vars", $nv), true, hash_of(&(m_show(&am), m_show(&bm), &pts)));
            }
            Err(e) => { if e.is_overflow() { ctx.inconclusive("overflow_machine_int") } else { ctx.violation("C16/eval/panic", &format!("eval panicked: {}", e.brief()), json!({"p": m_show(&am)})) } }
        }
    }}; }
    match rng.below(3) {
        0 => go!(P1, Var<'x', usize>, 1, |p, x| p.eval(&x[0])),
        1 => go!(P2, Var2<'x', 'y', usize>, 2, |p, x| p.eval(&x[0], &x[1])),
        _ => go!(P3, Var3<'x', 'y', 'z', usize>, 3, |p, x| p.eval(&x[0], &x[1], &x[2])),
    }
}

fn lc_history<T>(ctx: &mut Ctx, rng: &mut Rng)
where T: Ring + Bridge, for<'x> &'x T: RingOps<T> {
    // formal linear combinations of generators <k>
    let name = format!("Lc<Free<i32>,{}>", T::name());
    type G = Free<i32>;
    let gen = |rng: &mut Rng| -> BTreeMap<i32, T::O> { let mut m = BTreeMap::new(); for _ in 0..rng.below(5) { let k = rng.range(-2, 3) as i32; let c = T::gen(rng, Mag::Small); let cur: T::O = m.remove(&k).unwrap_or(T::O::o0()); let s = cur.add(&c); if !s.is0() { m.insert(k, s); } } m };
    let lib = |m: &BTreeMap<i32, T::O>| -> Option<Lc<G, T>> { let t: Option<Vec<(G, T)>> = m.iter().map(|(k, c)| T::try_from_o(c).map(|x| (Free(*k), x))).collect(); t.map(Lc::from_iter) };
    let mut hist = vec![];
    let (mut am, bm) = (gen(rng), gen(rng));
    let (Some(mut a), Some(b)) = (lib(&am), lib(&bm)) else { ctx.inconclusive("generator_unrepresentable"); return };
    hist.push(format!("a = {:?}, b = {:?}", am.iter().map(|(k, c)| (k, c.show())).collect::<Vec<_>>(), bm.iter().map(|(k, c)| (k, c.show())).collect::<Vec<_>>()));
    for _ in 0..rng.urange(3, 12) {
        let op = rng.below(9);
        let s = T::gen(rng, Mag::Small);
        let Some(sl) = T::try_from_o(&s) else { return };
        hist.push(format!("op {op} (scalar {})", s.show()));
        let mut nm = am.clone();
        match op {
            0 => { for (k, c) in &bm { let cur = nm.remove(k).unwrap_or(T::O::o0()); let v = cur.add(c); if !v.is0() { nm.insert(*k, v); } } }
            1 => { for (k, c) in &bm { let cur = nm.remove(k).unwrap_or(T::O::o0()); let v = cur.sub(c); if !v.is0() { nm.insert(*k, v); } } }
            2 => { nm = nm.into_iter().map(|(k, c)| (k, c.mul(&s))).filter(|(_, c)| !c.is0()).collect() }
            3 => { nm = nm.into_iter().map(|(k, c)| (k, c.neg())).collect() }
            4 => { nm = BTreeMap::new() } // a - a
            5 => {
                // bilinear extension of a NON-injective product of generators: the group algebra of Z/3
                let mut r: BTreeMap<i32, T::O> = BTreeMap::new();
                for (k, c) in &am { for (l, d) in &bm { let key = (k + l).rem_euclid(3); let cur = r.remove(&key).unwrap_or(T::O::o0()); let v = cur.add(&c.mul(d)); if !v.is0() { r.insert(key, v); } } }
                nm = r;
            }
            6 => {
                // linear extension of the non-injective relabelling <k> -> <|k|>
                let mut r: BTreeMap<i32, T::O> = BTreeMap::new();
                for (k, c) in &am { let key = k.abs(); let cur = r.remove(&key).unwrap_or(T::O::o0()); let v = cur.add(c); if !v.is0() { r.insert(key, v); } }
                nm = r;
            }
            7 => { nm = nm.into_iter().filter(|(k, _)| *k >= 0).collect() }
            _ => {
                // linear extension of <k> -> <k> + s <k+1>
                let mut r: BTreeMap<i32, T::O> = BTreeMap::new();
                for (k, c) in &am { for (key, v) in [(*k, c.clone()), (*k + 1, c.mul(&s))] { let cur = r.remove(&key).unwrap_or(T::O::o0()); let w = cur.add(&v); if !w.is0() { r.insert(key, w); } } }
                nm = r;
            }
        }
        let (a2, b2) = (a.clone(), b.clone());
        let r = guarded(move || match op {
            0 => &a2 + &b2, 1 => { let mut x = a2.clone(); x -= &b2; x } 2 => { let mut x = a2.clone(); x *= &sl; x } 3 => -a2, 4 => &a2 - &a2,
            5 => a2.combine(&b2, |x, y| Free((x.0 + y.0).rem_euclid(3))),
            6 => a2.map_gens(|x| Free(x.0.abs())),
            7 => a2.filter_gens(|x| x.0 >= 0),
            _ => a2.apply(|x| Lc::from_iter([(Free(x.0), T::one()), (Free(x.0 + 1), sl.clone())])),
        });
        match r {
            Ok(x) => {
                let got: BTreeMap<i32, T::O> = x.iter().map(|(g, c)| (g.0, c.to_o())).collect();
                let zero_stored = x.iter().any(|(_, c)| c.is_zero());
                if zero_stored || got != nm || x.nterms() != nm.len() || x.is_zero() != nm.is_empty() || lib(&nm).map(|y| y != x).unwrap_or(false) {
                    ctx.violation(&format!("C16/{name}/op{op}"), &format!("linear combination after op {op}: stored zero = {zero_stored}, nterms = {}, expected {} terms, == with the rebuilt value = {}", x.nterms(), nm.len(), lib(&nm).map(|y| y == x).unwrap_or(true)), json!({"type": name, "history": hist}));
                    return
                }
                for k in -3..=4 { if x.coeff(&Free(k)).to_o() != nm.get(&k).cloned().unwrap_or(T::O::o0()) { ctx.violation(&format!("C16/{name}/coeff"), &format!("coeff(<{k}>) differs from the linear combination after op {op}"), json!({"type": name, "history": hist})); return } }
                a = x; am = nm;
            }
            Err(e) => { if T::bounded() && e.is_overflow() { ctx.inconclusive("overflow_machine_int"); return } ctx.violation(&format!("C16/{name}/panic"), &format!("panicked: {}", e.brief()), json!({"type": name, "history": hist})); return }
        }
    }
    ctx.ok(&name, true, hash_of(&hist));
}

pub fn run(ctx: &mut Ctx) {
    let n = ctx.by_tier(90_000u64, 4_000_000);
    macro_rules! poly { ($x:ty, $t:ty) => { ctx.random_cases(&format!("{}/{}", <$x as MonoKind>::kname(), <$t as Bridge>::name()), n, |c, r| history::<$x, $t>(c, r)); }; }
    poly!(Var<'x', usize>, i64);
    poly!(Var<'x', usize>, FF<3>);
    poly!(Var<'x', usize>, GaussInt<i64>);
    poly!(Var<'x', isize>, Ratio<i64>);
    poly!(Var<'x', isize>, FF<5>);
    poly!(Var2<'x', 'y', usize>, i64);
    poly!(Var2<'x', 'y', usize>, FF<3>);
    poly!(Var2<'x', 'y', isize>, Ratio<i64>);
    poly!(Var3<'x', 'y', 'z', usize>, i64);
    poly!(Var3<'x', 'y', 'z', isize>, FF<5>);
    poly!(MultiVar<'x', usize>, i64);
    poly!(MultiVar<'x', usize>, GaussInt<i64>);
    poly!(MultiVar<'x', isize>, Ratio<i64>);
    poly!(MultiVar<'x', isize>, FF<3>);
    macro_rules! ord { ($x:ty) => { ctx.random_cases(&format!("{}/orders", <$x as MonoKind>::kname()), n * 2, |c, r| orders::<$x>(c, r)); }; }
    ord!(Var<'x', usize>); ord!(Var<'x', isize>); ord!(Var2<'x', 'y', usize>); ord!(Var2<'x', 'y', isize>);
    ord!(Var3<'x', 'y', 'z', usize>); ord!(Var3<'x', 'y', 'z', isize>); ord!(MultiVar<'x', usize>); ord!(MultiVar<'x', isize>);
    ctx.random_cases("eval", n * 2, |c, r| eval_case(c, r));
    ctx.random_cases("lc/i64", n, |c, r| lc_history::<i64>(c, r));
    ctx.random_cases("lc/FF<3>", n, |c, r| lc_history::<FF<3>>(c, r));
    ctx.random_cases("lc/Ratio<i64>", n, |c, r| lc_history::<Ratio<i64>>(c, r));
    ctx.random_cases("lc/GaussInt<i64>", n, |c, r| lc_history::<GaussInt<i64>>(c, r));
}
