// C14 — scalar types are exact commutative rings with canonical representatives.
// Reference model: BigInt-based own types (oracle::num). Random histories over a
// pool of values; every operator form (val/ref/assign) is exercised; after every
// step the library value is converted field by field and compared with the model,
// canonical form, ==, Zero/One and (where defined) Ord are compared too.

use std::cmp::Ordering;

use num_bigint::BigInt;
use serde_json::json;
use yui::{QuadInt, Ratio, Ring, RingOps, FF, FF2};

use crate::bridge::{Bridge, Mag};
use crate::ctx::{guarded, hash_of, Ctx, Rng};
use crate::oracle::num::*;

#[derive(Clone, Copy, Debug)]
enum Op { Add, Sub, Mul, Neg }

fn apply<T>(op: Op, form: usize, a: &T, b: &T) -> T
where T: Ring, for<'x> &'x T: RingOps<T> {
    match op {
        Op::Add => match form {
            0 => a.clone() + b.clone(),
            1 => a.clone() + b,
            2 => a + b.clone(),
            3 => a + b,
            4 => { let mut x = a.clone(); x += b.clone(); x }
            _ => { let mut x = a.clone(); x += b; x }
        },
        Op::Sub => match form {
            0 => a.clone() - b.clone(),
            1 => a.clone() - b,
            2 => a - b.clone(),
            3 => a - b,
            4 => { let mut x = a.clone(); x -= b.clone(); x }
            _ => { let mut x = a.clone(); x -= b; x }
        },
        Op::Mul => match form {
            0 => a.clone() * b.clone(),
            1 => a.clone() * b,
            2 => a * b.clone(),
            3 => a * b,
            4 => { let mut x = a.clone(); x *= b.clone(); x }
            _ => { let mut x = a.clone(); x *= b; x }
        },
        Op::Neg => if form % 2 == 0 { -a.clone() } else { -a },
    }
}

fn model<O: ORing>(op: Op, a: &O, b: &O) -> O {
    match op { Op::Add => a.add(b), Op::Sub => a.sub(b), Op::Mul => a.mul(b), Op::Neg => a.neg() }
}

type CmpFn<T> = fn(&T, &T) -> Ordering;
type OCmpFn<O> = fn(&O, &O) -> Ordering;

/// `plain_int`: a bare machine integer (overflow is impossible when the result is representable)
fn history<T>(ctx: &mut Ctx, rng: &mut Rng, plain_int: bool, cmp: Option<(CmpFn<T>, OCmpFn<T::O>)>)
where T: Ring + Bridge, for<'x> &'x T: RingOps<T> {
    let tname = T::name();
    let steps = rng.urange(5, 30);
    let big_run = rng.chance(1, 3);
    let npool = 4;
    let mut pool_o: Vec<T::O> = vec![];
    let mut hist: Vec<String> = vec![];
    let mut saw_big = false;
    for k in 0..npool {
        let mag = if big_run { Mag::pick(rng) } else { Mag::pick_small(rng) };
        if matches!(mag, Mag::Boundary | Mag::Big | Mag::Huge) { saw_big = true }
        let o = match k { 0 if rng.chance(1, 4) => T::O::o0(), 1 if rng.chance(1, 4) => T::O::o1(), _ => T::gen(rng, mag) };
        hist.push(format!("v{k} = {}", o.show()));
        pool_o.push(o);
    }
    let mut pool: Vec<T> = vec![];
    for o in &pool_o {
        match guarded(|| T::try_from_o(o)) {
            Ok(Some(t)) => pool.push(t),
            Ok(None) => { ctx.inconclusive("generator_unrepresentable"); return }
            Err(_) => { ctx.inconclusive("constructor_overflow_machine_int"); return }
        }
    }

    let mut good = true;
    let mut overflowed = false;
    for _ in 0..steps {
        let (i, j, k) = (rng.below(npool), rng.below(npool), rng.below(npool));
        let op = *rng.choose(&[Op::Add, Op::Sub, Op::Mul, Op::Mul, Op::Neg, Op::Add]);
        let form = rng.below(6);
        // occasionally make both operands the same element / a cancelling pair
        let j = if rng.chance(1, 6) { i } else { j };
        hist.push(format!("v{k} = {:?}[form {form}](v{i}, v{j})", op));
        let exp = model(op, &pool_o[i], &pool_o[j]);
        if exp.bits() > 12_000 { hist.pop(); continue } // keep repeated squaring bounded
        let representable = match guarded(|| T::try_from_o(&exp)) {
            Ok(r) => r,
            Err(_) => { ctx.inconclusive("constructor_overflow_machine_int"); overflowed = true; break }
        };
        let (a, b) = (pool[i].clone(), pool[j].clone());
        let got = guarded(|| apply(op, form, &a, &b));
        match (representable, got) {
            (Some(_), Ok(v)) => {
                if v.to_o() != exp {
                    good = false;
                    ctx.violation(&format!("C14/{tname}/{:?}/wrong-value", op),
                        &format!("{:?} (form {form}) on {} gave {} but the ring element is {}", op, tname, v.to_o().show(), exp.show()),
                        json!({"type": tname, "history": hist, "a": pool_o[i].show(), "b": pool_o[j].show(), "lib": format!("{:?}", v), "model": exp.show()}));
                    break
                }
                if let Some(e) = v.canon_err() {
                    good = false;
                    ctx.violation(&format!("C14/{tname}/{:?}/non-canonical", op),
                        &format!("result of {:?} (form {form}) is not stored canonically: {e}", op),
                        json!({"type": tname, "history": hist, "a": pool_o[i].show(), "b": pool_o[j].show()}));
                    break
                }
                pool[k] = v;
                pool_o[k] = exp;
            }
            (Some(_), Err(p)) => {
                let opc = match op { Op::Add => 0u8, Op::Sub => 1, Op::Mul => 2, _ => 9 };
                if T::bounded() && !plain_int && p.is_overflow() && T::in_min_exact_domain(opc, &pool_o[i], &pool_o[j]) == Some(true) {
                    good = false;
                    ctx.violation(&format!("C14/{tname}/{:?}/overflow-inside-exact-domain", op),
                        &format!("{:?} (form {form}) overflowed although the result {} and every intermediate of the schoolbook algorithm (rationals: common denominator = lcm; quadratic integers: the four partial products and their sums) are representable", op, exp.show()),
                        json!({"type": tname, "history": hist, "a": pool_o[i].show(), "b": pool_o[j].show()}));
                    break
                }
                if T::bounded() && !plain_int && p.is_overflow() {
                    // intermediate overflow in a composite machine-integer type: outside the promise
                    ctx.inconclusive("intermediate_overflow_machine_int");
                    overflowed = true;
                    break
                }
                good = false;
                ctx.violation(&format!("C14/{tname}/{:?}/panic", op),
                    &format!("{:?} (form {form}) panicked although the result {} is representable: {}", op, exp.show(), p.brief()),
                    json!({"type": tname, "history": hist, "a": pool_o[i].show(), "b": pool_o[j].show()}));
                break
            }
            (None, Ok(v)) => {
                good = false;
                ctx.violation(&format!("C14/{tname}/{:?}/wrapped", op),
                    &format!("the exact result {} is not representable in {tname} but the library returned {:?} instead of failing", exp.show(), v),
                    json!({"type": tname, "history": hist, "a": pool_o[i].show(), "b": pool_o[j].show()}));
                break
            }
            (None, Err(_)) => { ctx.count("unrepresentable_results_rejected", 1); }
        }

        // equality / zero / one / order against the model, on values reached by different histories
        let (x, y) = (rng.below(npool), rng.below(npool));
        let (lx, ly) = (&pool[x], &pool[y]);
        let eq_m = pool_o[x] == pool_o[y];
        if (lx == ly) != eq_m {
            good = false;
            ctx.violation(&format!("C14/{tname}/eq"), &format!("== returned {} for {} and {}", lx == ly, pool_o[x].show(), pool_o[y].show()),
                json!({"type": tname, "history": hist, "lib_x": format!("{:?}", lx), "lib_y": format!("{:?}", ly)}));
            break
        }
        if lx.is_zero() != pool_o[x].is0() || lx.is_one() != pool_o[x].is1() {
            good = false;
            ctx.violation(&format!("C14/{tname}/zero-one"), &format!("is_zero/is_one = {}/{} for {}", lx.is_zero(), lx.is_one(), pool_o[x].show()),
                json!({"type": tname, "history": hist}));
            break
        }
        if let Some((c, oc)) = cmp {
            let r = guarded(|| (c(lx, ly), c(ly, lx)));
            match r {
                Ok((o1, o2)) => {
                    let e = oc(&pool_o[x], &pool_o[y]);
                    if o1 != e || o2 != e.reverse() || (o1 == Ordering::Equal) != (lx == ly) {
                        good = false;
                        ctx.violation(&format!("C14/{tname}/cmp"),
                            &format!("cmp({}, {}) = {:?} / reversed {:?}, the order of the ring gives {:?}; == gives {}", pool_o[x].show(), pool_o[y].show(), o1, o2, e, lx == ly),
                            json!({"type": tname, "history": hist}));
                        break
                    }
                }
                Err(p) => {
                    if T::bounded() && p.is_overflow() { ctx.inconclusive("cmp_overflow_machine_int"); }
                    else {
                        good = false;
                        ctx.violation(&format!("C14/{tname}/cmp-panic"), &format!("cmp panicked: {}", p.brief()), json!({"type": tname, "history": hist}));
                        break
                    }
                }
            }
        }
    }

    // folds and small derived operations of the ring traits: AddMon::sum, Mon::product (over values and over
    // references), Ring::from_sign, is_pm_one — judged only when the exact result is representable
    if good && !overflowed {
        let (so, po) = (pool_o.iter().fold(T::O::o0(), |a, x| a.add(x)), pool_o.iter().fold(T::O::o1(), |a, x| a.mul(x)));
        let pool2 = pool.clone();
        if po.bits() < 12_000 {
            if let (Ok(Some(_)), Ok(Some(_))) = (guarded(|| T::try_from_o(&so)), guarded(|| T::try_from_o(&po))) {
                match guarded(move || (T::sum(pool2.iter()), T::sum(pool2.clone()), T::product(pool2.iter()), T::product(pool2.clone()))) {
                    Ok((s1, s2, p1, p2)) => {
                        if s1.to_o() != so || s2.to_o() != so || p1.to_o() != po || p2.to_o() != po {
                            good = false;
                            ctx.violation(&format!("C14/{tname}/sum-product"), &format!("sum / product over the pool differ from the ring: sum {} / {} (expected {}), product {} / {} (expected {})", s1.to_o().show(), s2.to_o().show(), so.show(), p1.to_o().show(), p2.to_o().show(), po.show()), json!({"type": tname, "history": hist}));
                        }
                    }
                    Err(p) => { if !(T::bounded() && p.is_overflow()) { good = false; ctx.violation(&format!("C14/{tname}/sum-product-panic"), &format!("sum / product panicked: {}", p.brief()), json!({"type": tname, "history": hist})); } }
                }
            }
        }
        if good {
            let (ps, ms) = (T::from_sign(yui::Sign::Pos), T::from_sign(yui::Sign::Neg));
            let pm_ok = ps.to_o() == T::O::o1() && ms.to_o() == T::O::o1().neg() && ps.is_pm_one() && ms.is_pm_one()
                && pool.iter().zip(pool_o.iter()).all(|(x, o)| x.is_pm_one() == (o.is1() || o.neg().is1()));
            if !pm_ok { good = false; ctx.violation(&format!("C14/{tname}/from-sign-pm-one"), "from_sign / is_pm_one disagree with the ring elements +1, -1", json!({"type": tname, "history": hist})); }
        }
    }

    // Zero / One constants
    if good && (!T::zero().is_zero() || !T::one().is_one() || T::zero().to_o() != T::O::o0() || T::one().to_o() != T::O::o1()) {
        good = false;
        ctx.violation(&format!("C14/{tname}/constants"), "Zero::zero()/One::one() are not the ring constants", json!({"type": tname}));
    }

    if good && !overflowed {
        let class = format!("{tname}");
        ctx.ok(&class, steps >= 5 || saw_big, hash_of(&hist));
        if ctx.want_sample(&class) {
            let h: Vec<&String> = hist.iter().take(10).collect();
            ctx.sample(&class, json!({"history_head": h, "steps": steps}));
        }
    }
}

fn z_cmp(a: &Z, b: &Z) -> Ordering { a.cmp(b) }
fn q_cmp(a: &Q, b: &Q) -> Ordering { a.cmp(b) }

// residues of a decimal string modulo a 61-bit prime with own u128 arithmetic:
// an independent check of BigInt arithmetic (which everything else trusts)
fn residue(dec: &str, p: u128) -> u128 {
    let (neg, digits) = match dec.strip_prefix('-') { Some(d) => (true, d), None => (false, dec) };
    let mut r: u128 = 0;
    for c in digits.bytes() { r = (r * 10 + (c - b'0') as u128) % p }
    if neg && r != 0 { p - r } else { r }
}

fn bigint_residues(ctx: &mut Ctx, rng: &mut Rng) {
    const PS: [u128; 3] = [2305843009213693951, 2305843009213693921, 2305843009213693907];
    let (ma, mb) = (Mag::pick(rng), Mag::pick(rng));
    let a = BigInt::gen(rng, ma);
    let b = BigInt::gen(rng, mb);
    let (s, d, m) = (&a + &b, &a - &b, &a * &b);
    for p in PS {
        let (ra, rb) = (residue(&a.to_string(), p), residue(&b.to_string(), p));
        let ok = residue(&s.to_string(), p) == (ra + rb) % p
            && residue(&d.to_string(), p) == (ra + p - rb) % p
            && residue(&m.to_string(), p) == (ra * rb) % p;
        if !ok {
            ctx.violation("C14/BigInt/residue", "BigInt +,-,* disagree with residue arithmetic modulo a 61-bit prime",
                json!({"a": a.to_string(), "b": b.to_string(), "p": p.to_string()}));
            return
        }
    }
    ctx.ok("BigInt/residues", true, hash_of(&(a.to_string(), b.to_string())));
}

pub fn run(ctx: &mut Ctx) {
    let n = ctx.by_tier(180_000u64, 8_000_000);
    macro_rules! ring {
        ($t:ty, $plain:expr) => { ctx.random_cases(&<$t as Bridge>::name(), n, |c, r| history::<$t>(c, r, $plain, None)); };
    }
    macro_rules! ring_ord {
        ($t:ty, $plain:expr, $oc:expr) => {
            ctx.random_cases(&<$t as Bridge>::name(), n, |c, r| history::<$t>(c, r, $plain, Some((|a: &$t, b: &$t| a.cmp(b), $oc))));
        };
    }
    ring_ord!(i32, true, z_cmp);
    ring_ord!(i64, true, z_cmp);
    ring_ord!(i128, true, z_cmp);
    ring_ord!(BigInt, true, z_cmp);
    ring_ord!(Ratio<i64>, false, q_cmp);
    ring_ord!(Ratio<i128>, false, q_cmp);
    ring_ord!(Ratio<BigInt>, false, q_cmp);
    ring!(FF2, false);
    ring!(FF<2>, false);
    ring!(FF<3>, false);
    ring!(FF<5>, false);
    ring!(FF<7>, false);
    ring!(FF<32749>, false);
    ring!(FF<46337>, false);
    ring!(FF<65537>, false);
    ring!(FF<2147483647>, false);
    ring!(QuadInt<i64, -1>, false);
    ring!(QuadInt<i64, -3>, false);
    ring!(QuadInt<i64, 2>, false);
    ring!(QuadInt<i64, -2>, false);
    ring!(QuadInt<i64, 5>, false);
    ring!(QuadInt<i64, -7>, false);
    ring!(QuadInt<i128, -1>, false);
    ring!(QuadInt<BigInt, -1>, false);
    ring!(QuadInt<BigInt, -3>, false);
    ring!(QuadInt<BigInt, 2>, false);
    ring!(QuadInt<BigInt, -2>, false);
    ring!(QuadInt<BigInt, 5>, false);
    ring!(QuadInt<BigInt, -7>, false);
    ctx.random_cases("BigInt/residues", n, |c, r| bigint_residues(c, r));
}
