// C15 — Euclidean-domain operations: exact division, gcd, Bezout, units, rounding.
// Every identity is evaluated with the oracle's own arithmetic on the converted
// results; norms, divisibility, "associate" and "unit" are the oracle's own.

use num_bigint::BigInt;
use num_traits::{One, Zero};
use serde_json::json;
use yui::poly::{HPoly, Poly};
use yui::{DivRound, EisenInt, EucRing, EucRingOps, GaussInt, Ratio, FF};

use crate::bridge::{Bridge, Mag};
use crate::ctx::{guarded, hash_of, Ctx, PanicRec, Rng};
use crate::oracle::num::*;

struct Env<'a> { ctx: &'a mut Ctx, tname: String, plain_int: bool, bounded: bool, a: String, b: String, bad: bool, inconcl: bool }

impl<'a> Env<'a> {
    fn viol(&mut self, what: &str, msg: String) {
        self.bad = true;
        let key = format!("C15/{}/{}", self.tname, what);
        self.ctx.violation(&key, &msg, json!({"type": self.tname, "a": self.a, "b": self.b}));
    }
    /// classify a library panic: overflow inside a machine-integer based type is outside the promise
    fn panic(&mut self, what: &str, p: &PanicRec) {
        if self.bounded && p.is_overflow() && !self.plain_int {
            self.inconcl = true;
            self.ctx.inconclusive("overflow_machine_int");
        } else if self.bounded && self.plain_int && p.is_overflow() && what == "div" {
            // MIN / -1 : the quotient itself is not representable
            self.inconcl = true;
            self.ctx.inconclusive("quotient_unrepresentable");
        } else if self.bounded && p.is_overflow() {
            self.inconcl = true;
            self.ctx.inconclusive("overflow_machine_int");
        } else {
            self.viol(&format!("{what}/panic"), format!("{what} panicked: {}", p.brief()));
        }
    }
}

fn pair<T>(ctx: &mut Ctx, rng: &mut Rng, plain_int: bool)
where T: EucRing + Bridge, for<'x> &'x T: EucRingOps<T>, T::O: OEuc {
    let tname = T::name();
    let mag = if T::bounded() && !plain_int { Mag::pick_small(rng) } else { Mag::pick(rng) };
    let mag_b = if rng.chance(1, 3) { Mag::pick_small(rng) } else { mag };
    let mut ao = T::gen(rng, mag);
    let mut bo = T::gen(rng, mag_b);
    // related operands: multiples, associates, equal
    match rng.below(10) {
        0 => { ao = ao.mul(&bo) }
        1 => { let u = T::O::unit_samples(); ao = bo.mul(rng.choose(&u)) }
        2 => { let c = T::gen(rng, Mag::Small); ao = ao.mul(&c); bo = bo.mul(&c) }
        3 => { ao = bo.clone() }
        4 => { ao = T::O::o0() }
        _ => {}
    }
    let (Some(a), Some(b)) = (guarded(|| T::try_from_o(&ao)).ok().flatten(), guarded(|| T::try_from_o(&bo)).ok().flatten()) else {
        ctx.inconclusive("generator_unrepresentable");
        return
    };
    let big = ao.bits() > 53 || bo.bits() > 53;
    let mut e = Env { ctx, tname: tname.clone(), plain_int, bounded: T::bounded(), a: ao.show(), b: bo.show(), bad: false, inconcl: false };

    // ---- division with remainder (b != 0), in several operator forms
    let mut nontrivial_div = false;
    if !bo.is0() {
        let form = rng.below(4);
        let r = guarded(|| match form {
            0 => (&a / &b, &a % &b),
            1 => (a.clone() / b.clone(), a.clone() % b.clone()),
            2 => { let mut q = a.clone(); q /= &b; let mut r = a.clone(); r %= &b; (q, r) }
            _ => (a.clone() / &b, &a % b.clone()),
        });
        match r {
            Ok((q, r)) => {
                let (qo, ro) = (q.to_o(), r.to_o());
                if qo.mul(&bo).add(&ro) != ao {
                    e.viol("divrem/identity", format!("a != (a/b)*b + (a%b): q = {}, r = {} (form {form})", qo.show(), ro.show()));
                } else if !ro.is0() && !(ro.size() < bo.size()) {
                    e.viol("divrem/norm", format!("remainder {} has Euclidean size {} >= size(b) = {}", ro.show(), ro.size(), bo.size()));
                }
                nontrivial_div = !ro.is0() && bo.size() >= z(2);
            }
            Err(p) => e.panic("div", &p),
        }
        // divides
        if !e.bad && !e.inconcl {
            match guarded(|| b.divides(&a)) {
                Ok(d) => if d != bo.divides(&ao) { e.viol("divides", format!("b.divides(a) = {d}, the ring says {}", bo.divides(&ao))) },
                Err(p) => e.panic("divides", &p),
            }
        }
    }

    // ---- gcd / gcdx / lcm
    if !e.bad && !e.inconcl {
        match guarded(|| (T::gcd(&a, &b), T::gcd(&b, &a), T::gcdx(&a, &b))) {
            Ok((d, d2, (dx, s, t))) => {
                let d_o = d.to_o();
                let own = T::O::gcd(&ao, &bo);
                if ao.is0() && bo.is0() {
                    if !d_o.is0() { e.viol("gcd/zero", format!("gcd(0,0) = {}", d_o.show())) }
                } else if !d_o.divides(&ao) || !d_o.divides(&bo) {
                    e.viol("gcd/divides", format!("gcd = {} does not divide both operands", d_o.show()));
                } else if !own.divides(&d_o) {
                    e.viol("gcd/greatest", format!("gcd = {} is not a greatest common divisor (own Euclid gives {})", d_o.show(), own.show()));
                }
                if !e.bad && d != d2 { e.viol("gcd/order", format!("gcd(a,b) = {} but gcd(b,a) = {}", d_o.show(), d2.to_o().show())) }
                if !e.bad {
                    // normalised: fixed by normalisation, constant on the unit orbit, and (Z, fields, K[x]) the universal convention
                    match guarded(|| d.normalized()) {
                        Ok(n) => if n != d { e.viol("gcd/normalized", format!("gcd = {} is not its own normalised associate {}", d_o.show(), n.to_o().show())) },
                        Err(p) => e.panic("normalized", &p),
                    }
                    if !e.bad && !is_quad::<T>() && !d_o.is_normalized() {
                        e.viol("gcd/normalized", format!("gcd = {} is not the normalised associate (non-negative / 1 / monic)", d_o.show()));
                    }
                }
                if !e.bad {
                    let comb = s.to_o().mul(&ao).add(&t.to_o().mul(&bo));
                    if comb != dx.to_o() { e.viol("gcdx/bezout", format!("s*a + t*b = {} but gcdx returned d = {} (s = {}, t = {})", comb.show(), dx.to_o().show(), s.to_o().show(), t.to_o().show())) }
                    else if dx != d { e.viol("gcdx/gcd", format!("gcdx returned d = {} but gcd(a,b) = {}", dx.to_o().show(), d_o.show())) }
                }
                if !e.bad && !(ao.is0() && bo.is0()) {
                    match guarded(|| T::lcm(&a, &b)) {
                        Ok(l) => {
                            let lhs = l.to_o().mul(&d_o);
                            let rhs = ao.mul(&bo);
                            if !(lhs.divides(&rhs) && rhs.divides(&lhs)) && !(lhs.is0() && rhs.is0()) {
                                e.viol("lcm", format!("lcm*gcd = {} is not an associate of a*b = {}", lhs.show(), rhs.show()));
                            }
                        }
                        Err(p) => e.panic("lcm", &p),
                    }
                }
            }
            Err(p) => e.panic("gcd", &p),
        }
    }

    // ---- units and normalisation
    if !e.bad && !e.inconcl {
        for (x, xo) in [(&a, &ao), (&b, &bo)] {
            match guarded(|| (x.is_unit(), x.inv(), x.normalizing_unit(), x.normalized())) {
                Ok((iu, inv, nu, nx)) => {
                    if iu != inv.is_some() { e.viol("unit/inv", format!("is_unit = {iu} but inv().is_some() = {} for {}", inv.is_some(), xo.show())) }
                    else if iu != xo.is_unit() { e.viol("unit/is_unit", format!("is_unit({}) = {iu}", xo.show())) }
                    else if let Some(i) = &inv { if !xo.mul(&i.to_o()).is1() { e.viol("unit/inverse", format!("x * inv(x) != 1 for x = {}", xo.show())) } }
                    if e.bad { break }
                    let nuo = nu.to_o();
                    if !nuo.is_unit() { e.viol("normalizing_unit/unit", format!("normalizing_unit({}) = {} is not a unit", xo.show(), nuo.show())); break }
                    if xo.mul(&nuo) != nx.to_o() { e.viol("normalized/product", format!("normalized(x) != x * normalizing_unit(x) for x = {}", xo.show())); break }
                    match guarded(|| (nx.normalized(), nx.normalizing_unit())) {
                        Ok((nn, u2)) => {
                            if nn != nx || !u2.is_one() { e.viol("normalized/idempotent", format!("normalisation is not idempotent at {} -> {}", xo.show(), nx.to_o().show())); break }
                        }
                        Err(p) => { e.panic("normalized", &p); break }
                    }
                    // constant on associates
                    for u in T::O::unit_samples() {
                        let yo = xo.mul(&u);
                        let Some(y) = guarded(|| T::try_from_o(&yo)).ok().flatten() else { continue };
                        match guarded(|| y.normalized()) {
                            Ok(ny) => if ny != nx {
                                e.viol("normalized/associates", format!("normalized({}) = {} but normalized of its associate {} = {}", xo.show(), nx.to_o().show(), yo.show(), ny.to_o().show()));
                                break
                            },
                            Err(p) => { e.panic("normalized", &p); break }
                        }
                    }
                    if !is_quad::<T>() && !nx.to_o().is_normalized() { e.viol("normalized/convention", format!("normalized({}) = {}", xo.show(), nx.to_o().show())) }
                }
                Err(p) => e.panic("unit", &p),
            }
            if e.bad || e.inconcl { break }
        }
    }

    let (bad, inc) = (e.bad, e.inconcl);
    if !bad && !inc {
        let class = tname.clone();
        ctx.ok(&class, nontrivial_div || big, hash_of(&(ao.show(), bo.show())));
        if ctx.want_sample(&class) { ctx.sample(&class, json!({"a": ao.show(), "b": bo.show()})) }
    }
}

fn is_quad<T: Bridge>() -> bool { T::name().starts_with("QuadInt") }

// ---- exact rounding of the nearest-integer quotient

fn round_int<T>(ctx: &mut Ctx, rng: &mut Rng)
where T: yui::Integer + Bridge<O = Z> + DivRound, for<'x> &'x T: yui::IntOps<T> {
    let tname = T::name();
    let (ma, mb) = (Mag::pick(rng), Mag::pick(rng));
    let mut ao = T::gen(rng, ma);
    let mut bo = T::gen(rng, mb);
    if bo.is_zero() { bo = z(7) }
    // exact halves and near-halves
    match rng.below(6) {
        0 => { let k = T::gen(rng, Mag::Small); ao = &bo * &k + &bo / z(2) }
        1 => { let k = T::gen(rng, Mag::Word); ao = &bo * &k + &bo / z(2) + z(rng.range(-1, 1)) }
        2 => {
            // the double-rounding window of any floating-point shortcut: |b| in [2^49, 2^54), quotient a hair
            // beside a tie, |a| around 2^53 or below
            let e = rng.urange(49, 53) as u32;
            let mut b = (z(1) << e) + z(rng.range(0, (1i64 << 49) - 1)) * z(rng.range(1, 15));
            if rng.chance(1, 2) { b = &b + z(1) - (&b % z(2)) } // mostly odd
            if rng.chance(1, 2) { b = -b }
            let k = z(rng.range(-2, 2));
            let half = (&b - z(1)) / z(2);
            let cand = &b * &k + half + z(rng.range(-1, 1));
            if T::try_from_o(&cand).is_some() && T::try_from_o(&b).is_some() { ao = cand; bo = b }
        }
        _ => {}
    }
    let (Some(a), Some(b)) = (T::try_from_o(&ao), T::try_from_o(&bo)) else { ctx.inconclusive("generator_unrepresentable"); return };
    let exp_q = round_div(&ao, &bo);
    match guarded(|| a.div_round(&b)) {
        Ok(q) => {
            let qo = q.to_o();
            if !is_nearest(&ao, &bo, &qo) {
                ctx.violation(&format!("C15/{tname}/div_round/inexact"),
                    &format!("div_round({ao}, {bo}) = {qo} is not a nearest integer to the quotient (a nearest one is {exp_q})"),
                    json!({"type": tname, "a": ao.to_string(), "b": bo.to_string(), "lib": qo.to_string()}));
                return
            }
            ctx.ok(&format!("{tname}/div_round"), ao.bits() > 53 || bo.bits() > 53, hash_of(&(ao.to_string(), bo.to_string())));
        }
        Err(p) => {
            if T::bounded() && p.is_overflow() && T::try_from_o(&exp_q).is_none() { ctx.inconclusive("quotient_unrepresentable"); return }
            if T::bounded() && p.is_overflow() && (ao.bits() >= 63 || bo.bits() >= 63) { ctx.inconclusive("overflow_machine_int"); return }
            ctx.violation(&format!("C15/{tname}/div_round/panic"), &format!("div_round({ao}, {bo}) panicked: {}", p.brief()),
                json!({"type": tname, "a": ao.to_string(), "b": bo.to_string()}));
        }
    }
}

pub fn run(ctx: &mut Ctx) {
    let n = ctx.by_tier(120_000u64, 4_000_000);
    macro_rules! euc { ($t:ty, $plain:expr) => { ctx.random_cases(&<$t as Bridge>::name(), n, |c, r| pair::<$t>(c, r, $plain)); }; }
    euc!(i32, true);
    euc!(i64, true);
    euc!(i128, true);
    euc!(BigInt, true);
    euc!(GaussInt<i64>, false);
    euc!(GaussInt<i128>, false);
    euc!(GaussInt<BigInt>, false);
    euc!(EisenInt<i64>, false);
    euc!(EisenInt<i128>, false);
    euc!(EisenInt<BigInt>, false);
    euc!(Ratio<i64>, false);
    euc!(Ratio<BigInt>, false);
    euc!(FF<2>, false);
    euc!(FF<3>, false);
    euc!(FF<7>, false);
    euc!(FF<46337>, false);
    euc!(yui::FF2, false);
    euc!(Poly<'x', Ratio<i64>>, false);
    euc!(Poly<'x', Ratio<BigInt>>, false);
    euc!(Poly<'x', FF<2>>, false);
    euc!(Poly<'x', FF<3>>, false);
    euc!(Poly<'x', FF<7>>, false);
    euc!(HPoly<'H', Ratio<BigInt>>, false);
    euc!(HPoly<'H', FF<3>>, false);
    euc!(HPoly<'H', yui::FF2>, false);
    macro_rules! rnd { ($t:ty) => { ctx.random_cases(&format!("{}/div_round", <$t as Bridge>::name()), n, |c, r| round_int::<$t>(c, r)); }; }
    rnd!(i32);
    rnd!(i64);
    rnd!(i128);
    rnd!(BigInt);
}
