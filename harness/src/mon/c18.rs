// C18 — link diagrams: components, signs, resolutions and braid closures.
// Oracle: own PD-code tools (union-find components, orientation propagation, circle counting,
// own braid closure).

use std::collections::BTreeSet;

use serde_json::json;
use yui::bitseq::BitSeq;
use yui_link::Link;

use crate::ctx::{guarded, hash_of, Ctx, Rng};
use crate::diag::*;
use crate::oracle::link::{braid_closure, braid_perm_cycles, edge_bijective, PD};

fn lib_to_pd(l: &Link) -> PD {
    PD { x: l.data().iter().map(|c| *c.edges()).collect(), neg: l.data().iter().map(|c| c.ctype() == yui_link::CrossingType::Xm).collect() }
}

/// all checks on one diagram; returns false after reporting a violation
pub fn check_diagram(ctx: &mut Ctx, rng: &mut Rng, pd: &PD, origin: &str, class: &str, nt: bool) -> bool {
    if let Err(e) = pd.validate() { ctx.inconclusive("generator_invalid_diagram"); ctx.note(format!("generator produced an invalid diagram ({origin}): {e}")); return true }
    let n = pd.n();
    let wit = |extra: serde_json::Value| json!({"origin": origin, "pd": pd.x, "switched": pd.neg, "detail": extra});
    let pd2 = pd.clone();
    let nstates: usize = if n <= 9 { 1 << n } else { 96 };
    let states: Vec<u64> = if n <= 9 { (0..nstates as u64).collect() } else { (0..nstates).map(|_| rng.next_u64() & ((1u64 << n) - 1)).collect() };
    let st2 = states.clone();
    let res = guarded(move || {
        let l = to_link(&pd2);
        let comps: Vec<Vec<usize>> = l.components().iter().map(|p| p.edges().clone()).collect();
        let closed: Vec<bool> = l.components().iter().map(|p| p.is_circle()).collect();
        let signs: Vec<i32> = l.crossing_signs().iter().map(|s| if s.is_positive() { 1 } else { -1 }).collect();
        let writhe = l.writhe();
        let spn = l.signed_crossing_nums();
        let is_knot = l.is_knot();
        let cn = l.crossing_num();
        let circ: Vec<usize> = st2.iter().map(|&s| l.resolved_by(&BitSeq::new(s, n)).components().len()).collect();
        let seif = l.seifert_circles().len();
        let m = l.mirror();
        let msigns: Vec<i32> = m.crossing_signs().iter().map(|s| if s.is_positive() { 1 } else { -1 }).collect();
        let mwrithe = m.writhe();
        let mcomps = m.components().len();
        (comps, closed, signs, writhe, spn, is_knot, cn, circ, seif, msigns, mwrithe, mcomps)
    });
    let (comps, closed, signs, writhe, spn, is_knot, cn, circ, seif, msigns, mwrithe, mcomps) = match res {
        Ok(x) => x,
        Err(p) => { ctx.violation("C18/panic", &format!("link routines panicked on a valid diagram ({origin}): {}", p.brief()), wit(json!(null))); return false }
    };
    let mut bad: Option<(&str, String)> = None;
    macro_rules! fail { ($k:expr, $m:expr) => { if bad.is_none() { bad = Some(($k, $m)) } }; }
    // components: a partition of the edge set equal to the strand orbits
    let ocomps: BTreeSet<BTreeSet<usize>> = pd.components().into_iter().collect();
    let lcomps: BTreeSet<BTreeSet<usize>> = comps.iter().map(|c| c.iter().cloned().collect()).collect();
    let total: usize = comps.iter().map(|c| c.len()).sum();
    if total != pd.edges().len() || comps.iter().any(|c| c.iter().collect::<BTreeSet<_>>().len() != c.len()) { fail!("components-not-partition", format!("components {:?} do not partition the {} edges", comps, pd.edges().len())) }
    else if lcomps != ocomps { fail!("components", format!("components {:?} differ from the strand orbits {:?}", lcomps, ocomps)) }
    if closed.iter().any(|c| !c) { fail!("components-open", "a component of a closed diagram is reported as an arc".into()) }
    if is_knot != (ocomps.len() == 1) { fail!("is_knot", format!("is_knot = {is_knot} with {} components", ocomps.len())) }
    if cn != n { fail!("crossing_num", format!("crossing_num = {cn}, {n} crossings given")) }
    // signs: one of the orientations compatible with the code
    let nfree = pd.n_free();
    let allowed: Vec<Vec<i32>> = (0..(1u64 << nfree.min(6))).filter_map(|c| pd.signs(c).ok()).collect();
    let choice = allowed.iter().position(|s| *s == signs);
    if choice.is_none() { fail!("signs", format!("crossing signs {:?} belong to no orientation compatible with the under-strand directions; allowed {:?}", signs, allowed)) }
    if writhe != signs.iter().sum::<i32>() || spn.0 as i32 - spn.1 as i32 != writhe || spn.0 + spn.1 != n { fail!("writhe", format!("writhe {writhe} / signed numbers {:?} inconsistent with the signs {:?}", spn, signs)) }
    if nfree == 0 {
        if msigns != signs.iter().map(|s| -s).collect::<Vec<_>>() || mwrithe != -writhe { fail!("mirror-signs", format!("mirror signs {:?} are not the negated signs {:?}", msigns, signs)) }
    } else {
        let neg_allowed: Vec<Vec<i32>> = allowed.iter().map(|s| s.iter().map(|x| -x).collect()).collect();
        if !neg_allowed.contains(&msigns) { fail!("mirror-signs", format!("mirror signs {:?} are not the negation of any compatible sign vector", msigns)) }
    }
    if mcomps != ocomps.len() { fail!("mirror-components", "mirror changes the number of components".into()) }
    // resolutions
    for (k, &s) in states.iter().enumerate() {
        let st: Vec<bool> = (0..n).map(|i| (s >> i) & 1 == 1).collect();
        let exp = pd.n_circles(&st);
        if circ[k] != exp { fail!("resolution-circles", format!("state {:0w$b}: {} circles, edge identification gives {}", s, circ[k], exp, w = n)); break }
    }
    // Seifert circles: oriented resolution for the orientation the library chose
    if let Some(c) = choice {
        let st: Vec<bool> = allowed[c].iter().map(|&s| s < 0).collect();
        let exp = pd.n_circles(&st);
        if seif != exp { fail!("seifert-circles", format!("{seif} Seifert circles, oriented resolution has {exp}")) }
    }
    // diagrams with a history: resolve one crossing first (it stays in the data as a smoothing), then the rest
    if bad.is_none() && n >= 2 {
        let k = rng.below(n);
        let bit = rng.chance(1, 2);
        let sub: Vec<u64> = if n <= 8 { (0..(1u64 << (n - 1))).collect() } else { (0..48).map(|_| rng.next_u64() & ((1u64 << (n - 1)) - 1)).collect() };
        let (pd3, sub2) = (pd.clone(), sub.clone());
        match guarded(move || {
            let l2 = to_link(&pd3).resolved_at(k, yui::bitseq::Bit::from(bit));
            (l2.crossing_num(), sub2.iter().map(|&s| l2.resolved_by(&BitSeq::new(s, n - 1)).components().len()).collect::<Vec<_>>())
        }) {
            Ok((cn2, cs)) => {
                if cn2 != n - 1 { fail!("resolved_at-crossing_num", format!("after resolving one crossing crossing_num = {cn2}")) }
                for (q, &s) in sub.iter().enumerate() {
                    // full state: bits of s fill the positions other than k
                    let mut st = vec![false; n];
                    let mut b = 0;
                    for i in 0..n { if i == k { st[i] = bit } else { st[i] = (s >> b) & 1 == 1; b += 1 } }
                    let exp = pd.n_circles(&st);
                    if cs[q] != exp { fail!("resolution-with-history", format!("crossing {k} resolved to {} first, then state {:b}: {} circles, edge identification gives {}", bit as u8, s, cs[q], exp)); break }
                }
            }
            Err(p) => fail!("resolution-with-history-panic", format!("resolved_at/resolved_by panicked: {}", p.brief())),
        }
    }
    // one crossing at a time, in a random order: resolved_at(i, r) addresses the i-th crossing that is still
    // unresolved; after every step crossing_num drops by one, crossing_at(j) is unresolved, and at the end the
    // diagram is the same crossingless diagram as resolved_by(state)
    if bad.is_none() && n >= 2 && n <= 12 {
        let order = rng.perm(n);
        let state: Vec<bool> = (0..n).map(|_| rng.chance(1, 2)).collect();
        let (pd4, order2, state2) = (pd.clone(), order.clone(), state.clone());
        match guarded(move || {
            let mut l = to_link(&pd4);
            let mut remaining: Vec<usize> = (0..pd4.n()).collect(); // original indices of the unresolved crossings, in data order
            let mut trace = vec![];
            for &k in &order2 {
                let i = remaining.iter().position(|&x| x == k).unwrap();
                // what crossing_at(i) points at before the step
                let at = *l.crossing_at(i).edges();
                let was_resolved = l.crossing_at(i).is_resolved();
                l = l.resolved_at(i, yui::bitseq::Bit::from(state2[k]));
                remaining.remove(i);
                trace.push((k, at, was_resolved, l.crossing_num()));
            }
            (trace, l.components().len(), l.components().iter().all(|c| c.is_circle()))
        }) {
            Ok((trace, circles, all_circ)) => {
                for (step, (k, at, was_resolved, cn)) in trace.iter().enumerate() {
                    if *at != pd.x[*k] || *was_resolved { fail!("resolved_at-chain", format!("step {step} of the order {:?}: crossing_at(i) for the i-th unresolved crossing (original index {k}) points at {:?}{}", order, at, if *was_resolved { " which is already resolved" } else { "" })); break }
                    if *cn != n - step - 1 { fail!("resolved_at-chain", format!("after {} single resolutions crossing_num = {cn}", step + 1)); break }
                }
                let exp = pd.n_circles(&state);
                if bad.is_none() && (circles != exp || !all_circ) { fail!("resolved_at-chain", format!("resolving one crossing at a time in the order {:?} with state {:?} gives {circles} components, edge identification gives {exp} circles", order, state)) }
            }
            Err(p) => fail!("resolved_at-chain-panic", format!("a chain of resolved_at calls in the order {:?} panicked: {}", order, p.brief())),
        }
    }
    if let Some((k, msg)) = bad { ctx.violation(&format!("C18/{k}"), &msg, wit(json!({"lib_signs": signs, "lib_components": comps}))); return false }
    ctx.count("resolution_states_checked", states.len() as i64);
    ctx.ok(class, nt, hash_of(&(&pd.x, &pd.neg)));
    if ctx.want_sample(class) { ctx.sample(class, json!({"origin": origin, "pd": pd.x, "switched": pd.neg, "signs": signs, "components": comps.len()})) }
    true
}

fn invariance(ctx: &mut Ctx, rng: &mut Rng, pd: &PD, origin: &str) {
    // writhe / signed numbers are invariant under relabelling, crossing reordering
    if pd.n_free() > 0 { return }
    let p2 = { let q = random_relabel(rng, pd); let perm = rng.perm(q.n()); q.permute_crossings(&perm) };
    let (a, b) = (pd.clone(), p2.clone());
    match guarded(move || { let (l1, l2) = (to_link(&a), to_link(&b)); (l1.writhe(), l1.signed_crossing_nums(), l2.writhe(), l2.signed_crossing_nums()) }) {
        Ok((w1, s1, w2, s2)) => if w1 != w2 || s1 != s2 {
            ctx.violation("C18/writhe-not-invariant", &format!("writhe {w1} {:?} becomes {w2} {:?} after renumbering edges and reordering crossings", s1, s2), json!({"origin": origin, "pd": pd.x, "pd2": p2.x}));
        } else { ctx.ok("invariance", true, hash_of(&(&pd.x, &p2.x))) },
        Err(p) => ctx.violation("C18/panic", &format!("panicked: {}", p.brief()), json!({"origin": origin, "pd": pd.x, "pd2": p2.x})),
    }
}

fn table_case(ctx: &mut Ctx, rng: &mut Rng, idx: usize) {
    let (name, _) = &table()[idx];
    let Some(pd) = load_pd(name) else { ctx.inconclusive("table_unreadable"); return };
    let multi = pd.components().len() >= 2;
    // constructors / loader / simple accessors: Link::load(name) and Link::from_pd_code give the diagram the file
    // holds; edges(), is_empty, crossing_num, ori_pres_state agree with the code
    let (name2, pdx) = (name.clone(), pd.x.clone());
    let r = guarded(move || {
        let a = yui_link::Link::load(&name2).ok().map(|l| (lib_to_pd(&l), l.is_empty(), l.crossing_num()));
        let b = yui_link::Link::from_pd_code(pdx.iter().cloned());
        let mut es: Vec<usize> = b.edges().into_iter().collect(); es.sort();
        let st: Vec<bool> = b.ori_pres_state().iter().map(|x| x == yui::bitseq::Bit::Bit1).collect();
        let sg: Vec<bool> = b.crossing_signs().iter().map(|s| !s.is_positive()).collect();
        (a, lib_to_pd(&b), es, st, sg, b.is_empty())
    });
    match r {
        Ok((a, b, es, st, sg, empty)) => {
            let wit = json!({"name": name, "pd": pd.x});
            match a {
                Some((la, e, cn)) => { if la.x != pd.x || la.neg.iter().any(|x| *x) || e != pd.x.is_empty() || cn != pd.n() { ctx.violation("C18/load", &format!("Link::load({name}) is not the diagram stored for {name}"), wit.clone()); return } }
                None => { if yui_link::Link::is_valid_name(name) { ctx.violation("C18/load", &format!("Link::load({name}) failed for a table name that is_valid_name accepts"), wit.clone()); return } }
            }
            if b.x != pd.x || b.neg.iter().any(|x| *x) || empty != pd.x.is_empty() { ctx.violation("C18/from-pd-code", "Link::from_pd_code does not hold the given code", wit.clone()); return }
            if es != pd.edges() { ctx.violation("C18/edges", "Link::edges differs from the labels of the code", wit.clone()); return }
            if st != sg { ctx.violation("C18/ori-pres-state", "ori_pres_state is not (0 for a positive, 1 for a negative crossing)", wit); return }
        }
        Err(p) => { ctx.violation("C18/constructor-panic", &format!("load / from_pd_code / accessors panicked: {}", p.brief()), json!({"name": name})); return }
    }
    if check_diagram(ctx, rng, &pd, &format!("table {name}"), "table", multi) { invariance(ctx, rng, &pd, name) }
}

fn derived_case(ctx: &mut Ctx, rng: &mut Rng) {
    let maxc = ctx.by_tier(9, 11);
    let (name, base) = pick_table(rng, 2, maxc);
    let mut pd = base;
    let mut origin = format!("table {name}");
    let mut special = false;
    for _ in 0..rng.urange(1, 4) {
        match rng.below(8) {
            0 => { let es = pd.edges(); let e = *rng.choose(&es); if let Ok(p) = pd.r1(e, rng.below(4)) { pd = p; origin += " +kink"; special = true } }
            1 => { let es = pd.edges(); let e = *rng.choose(&es); if pd.n() <= 10 { if let Ok(p) = pd.ring_over(e) { pd = p; origin += " +ring-over"; special = true } } }
            2 => { let (n2, o) = pick_table(rng, 2, 5); if pd.n() + o.n() <= 12 { pd = pd.disjoint_union(&o); origin += &format!(" ⊔ {n2}"); special = true } }
            3 => { let (n2, o) = pick_table(rng, 3, 5); if pd.n() + o.n() <= 12 { let (e, f) = (*rng.choose(&pd.edges()), *rng.choose(&o.edges())); if let Ok(p) = pd.connected_sum(e, &o, f) { pd = p; origin += &format!(" # {n2}") } } }
            4 => { let k = rng.below(pd.n()); pd = pd.switch_crossing(k); origin += &format!(" switch{k}") }
            5 => { pd = pd.mirror_flags(); origin += " mirror" }
            6 => { pd = pd.reverse_all(); origin += " reversed" }
            _ => { pd = random_relabel(rng, &pd); let p = rng.perm(pd.n()); pd = pd.permute_crossings(&p); origin += " relabelled" }
        }
    }
    let nt = special || pd.components().len() >= 2;
    let class = if pd.n_free() > 0 { "derived/over-only" } else if pd.neg.iter().any(|b| *b) { "derived/switched" } else { "derived" };
    if check_diagram(ctx, rng, &pd, &origin, class, nt) { invariance(ctx, rng, &pd, &origin) }
}

fn braid_case(ctx: &mut Ctx, rng: &mut Rng, table_idx: Option<usize>) {
    let (n, w, origin) = match table_idx {
        Some(i) => { let name = &braid_table()[i]; match load_braid(name) { Some((n, w)) => (n, w, format!("braid table {name}")), None => { ctx.inconclusive("table_unreadable"); return } } }
        None => { let (n, w) = random_braid(rng, 8, 20); (n, w, "random braid".to_string()) }
    };
    // braid-word algebra: inv() is the group inverse (letters inverted AND reversed), product concatenates,
    // From<[i32]> / FromIterator / elements() / strands() / len() agree with the word, table braids load as stored
    {
        let (w3, name3) = (w.clone(), table_idx.map(|i| braid_table()[i].clone()));
        let r = guarded(move || {
            let b = to_braid(n, &w3);
            let letters = |x: &yui_link::Braid| -> Vec<i32> { x.elements().iter().map(|g| if g.sign().is_positive() { g.index() as i32 } else { -(g.index() as i32) }).collect() };
            let inv = letters(&b.inv());
            let prod = letters(&(&b * &b.inv()));
            let fi: yui_link::Braid = w3.iter().cloned().collect();
            let loaded = name3.map(|nm| yui_link::Braid::load(&nm).ok().map(|x| (letters(&x), x.strands())));
            (letters(&b), b.strands(), b.len(), inv, prod, letters(&fi), fi.strands(), loaded, b.inv().inv() == b || letters(&b.inv().inv()) == letters(&b))
        });
        let wit = json!({"origin": origin, "strands": n, "word": w});
        match r {
            Ok((lw, st, len, inv, prod, fi, fist, loaded, invinv)) => {
                let exp_inv: Vec<i32> = w.iter().rev().map(|x| -x).collect();
                let exp_prod: Vec<i32> = w.iter().cloned().chain(exp_inv.iter().cloned()).collect();
                let used = w.iter().map(|x| x.unsigned_abs() as usize + 1).max().unwrap_or(0);
                if lw != w || st != n || len != w.len() { ctx.violation("C18/braid-word", "elements() / strands() / len() differ from the word the braid was built from", wit); return }
                if inv != exp_inv || !invinv { ctx.violation("C18/braid-inverse", &format!("inv() = {:?}, the group inverse of the word is {:?}", inv, exp_inv), wit); return }
                if prod != exp_prod { ctx.violation("C18/braid-product", "b * b.inv() is not the concatenation of the two words", wit); return }
                if fi != w || fist != used { ctx.violation("C18/braid-from-iter", &format!("FromIterator gives the word {:?} on {fist} strands, expected {:?} on {used}", fi, w), wit); return }
                if let Some(l) = loaded { match l { Some((lw2, ls)) => { if lw2 != w || ls != n { ctx.violation("C18/braid-load", "Braid::load differs from the stored word", wit); return } } None => { ctx.violation("C18/braid-load", "Braid::load failed for a table braid", wit); return } } }
            }
            Err(p) => { ctx.violation("C18/braid-word-panic", &format!("braid word operations panicked: {}", p.brief()), wit); return }
        }
    }
    let Ok(own) = braid_closure(n, &w) else { ctx.inconclusive("generator_free_loop"); return };
    let w2 = w.clone();
    let res = guarded(move || { let l = to_braid(n, &w2).closure(); (lib_to_pd(&l), l.components().len(), l.writhe(), l.crossing_num()) });
    let wit = json!({"origin": origin, "strands": n, "word": w});
    match res {
        Ok((lpd, comps, writhe, cn)) => {
            let mut bad: Option<(&str, String)> = None;
            if cn != w.len() { bad = Some(("closure-crossings", format!("{cn} crossings for a word of {} letters", w.len()))) }
            else if comps != braid_perm_cycles(n, &w) { bad = Some(("closure-components", format!("{comps} components, the braid permutation has {} cycles", braid_perm_cycles(n, &w)))) }
            else if writhe != w.iter().map(|x| x.signum()).sum::<i32>() { bad = Some(("closure-writhe", format!("writhe {writhe}, exponent sum {}", w.iter().map(|x| x.signum()).sum::<i32>()))) }
            else if !edge_bijective(&lpd, &own) { bad = Some(("closure-pd", "the closure's PD code is not edge-bijective to the geometric closure".into())) }
            if let Some((k, msg)) = bad { ctx.violation(&format!("C18/{k}"), &msg, json!({"braid": wit, "lib_pd": lpd.x, "own_pd": own.x})); return }
            let class = if table_idx.is_some() { "braid/table" } else { "braid/random" };
            if check_diagram(ctx, rng, &lpd, &origin, class, comps >= 2 || w.len() >= 3) { }
        }
        Err(p) => ctx.violation("C18/closure-panic", &format!("Braid::closure panicked: {}", p.brief()), wit),
    }
}

pub fn run(ctx: &mut Ctx) {
    let t = table().len();
    let maxc = ctx.by_tier(11, 11);
    for i in 0..t { if table()[i].1 <= maxc { ctx.case("table", i as u64, |c, r| table_case(c, r, i)) } }
    for i in 0..braid_table().len() { ctx.case("braid-table", i as u64, |c, r| braid_case(c, r, Some(i))) }
    let n = ctx.by_tier(120_000u64, 5_000_000);
    ctx.random_cases("derived", n, |c, r| derived_case(c, r));
    ctx.random_cases("braid", n / 2, |c, r| braid_case(c, r, None));
}
