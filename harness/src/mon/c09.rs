// C09 — Smith normal form: D = P A Q, diagonal divisibility chain, true inverses.
// All products and all divisibility / normalisation / associate judgements are made
// by the oracle's own dense arithmetic on the converted results; the diagonal is
// compared with a textbook SNF and (tiny matrices) with gcds of minors.

use std::sync::atomic::Ordering;

use num_bigint::BigInt;
use serde_json::json;
use yui::poly::Poly;
use yui::{EisenInt, EucRing, EucRingOps, GaussInt, Ratio, Ring, FF};
#[allow(unused_imports)]
use yui::RingOps;
use yui_matrix::dense::snf::snf;
use yui_matrix::dense::Mat;
use yui_matrix::MatTrait;

use crate::bridge::{Bridge, Mag};
use crate::ctx::{guarded, hash_of, Ctx, Rng};
use crate::matx::*;
use crate::oracle::linalg::OMat;
use crate::oracle::num::*;
use crate::trace;

pub fn gen_matrix<T>(ctx: &Ctx, rng: &mut Rng, unbounded: bool, max_dim: usize) -> (OMat<T::O>, String)
where T: Bridge, T::O: OEuc {
    let dim = |rng: &mut Rng| -> usize { match rng.below(10) { 0 => 0, 1 => 1, _ => rng.urange(1, max_dim) } };
    let (m, n) = (dim(rng), dim(rng));
    let mag = if !unbounded { if rng.chance(2, 3) { Mag::Tiny } else { Mag::Small } }
        else { match rng.below(10) { 0..=3 => Mag::Tiny, 4..=5 => Mag::Small, 6 => Mag::Word, 7 => Mag::Boundary, 8 => Mag::Big, _ => if m * n <= 16 { Mag::Huge } else { Mag::Big } } };
    let _ = ctx;
    let kind = rng.below(8);
    match kind {
        0 => (OMat::zero(m, n), "zero".into()),
        1 => (rand_omat::<T>(rng, m, n, 30, mag), "sparse".into()),
        2 => (rand_omat::<T>(rng, m, n, 100, mag), "dense".into()),
        3 => {
            // rank deficient: product through a thin middle dimension
            let r = rng.urange(0, m.min(n));
            let a = rand_omat::<T>(rng, m, r, 80, if unbounded { mag } else { Mag::Tiny });
            let b = rand_omat::<T>(rng, r, n, 80, if unbounded { mag } else { Mag::Tiny });
            (a.mul(&b), "rank-deficient".into())
        }
        4 | 5 | 6 => {
            // planted normal form with a non-trivial (not necessarily chained) diagonal
            let r = rng.urange(0, m.min(n));
            let diag: Vec<T::O> = (0..r).map(|_| {
                let mg = if unbounded && rng.chance(1, 4) { mag } else { Mag::Small };
                let mut x = T::gen(rng, mg);
                if x.is0() { x = T::O::o1() }
                x
            }).collect();
            let mix = rng.urange(0, 3 * (m + n));
            (planted::<T>(rng, m, n, &diag, mix, if unbounded { Mag::Small } else { Mag::Tiny }), "planted".into())
        }
        _ => {
            // diagonal-ish input that exercises chain normalisation directly
            let mut a = OMat::zero(m, n);
            for i in 0..m.min(n) { if rng.chance(4, 5) { a.set(i, i, T::gen(rng, if unbounded { Mag::Small } else { Mag::Tiny })) } }
            (a, "diagonal".into())
        }
    }
}

fn is_quad<T: Bridge>() -> bool { T::name().starts_with("QuadInt") }

fn case<T>(ctx: &mut Ctx, rng: &mut Rng, unbounded: bool, small_dim: Option<usize>)
where T: EucRing + Bridge, for<'x> &'x T: EucRingOps<T>, T::O: OEuc {
    let tname = T::name();
    let max_dim = small_dim.unwrap_or(ctx.by_tier(7, 10));
    let (ao, kind) = gen_matrix::<T>(ctx, rng, unbounded && small_dim.is_none(), max_dim);
    let flags = [rng.chance(1, 2), rng.chance(1, 2), rng.chance(1, 2), rng.chance(1, 2)];
    let Some(a) = o_to_mat::<T>(&ao) else { ctx.inconclusive("generator_unrepresentable"); return };
    let (m, n) = (ao.m, ao.n);
    let wit = |extra: serde_json::Value| json!({"type": tname, "kind": kind, "flags": flags, "A": ao.show(), "detail": extra});

    // logical termination bound (far above theory), judged on hook counters, never on time
    let bits = ao.max_bits().max(1);
    let bound = 1000 + 200 * ((m + n) as u64).pow(2) * (bits + 16);
    trace::reset_steps();
    trace::set_step_limit(bound);
    let res = guarded(|| snf(&a, flags));
    trace::set_step_limit(u64::MAX);
    let steps_e = trace::STEPS_SNF_ELIM.load(Ordering::SeqCst);
    let steps_d = trace::STEPS_SNF_DIAG.load(Ordering::SeqCst);
    let steps_h = trace::STEPS_HNF.load(Ordering::SeqCst);
    ctx.maxv("snf_eliminate_rounds_max", steps_e as i64);
    ctx.maxv("snf_diag_restarts_max", steps_d as i64);
    ctx.maxv("snf_lllhnf_iterations_max", steps_h as i64);
    let res = match res {
        Ok(r) => r,
        Err(p) => {
            if p.msg.contains(trace::STEP_BOUND_MSG) {
                ctx.violation(&format!("C09/{tname}/step-bound"), &format!("snf on a {m}x{n} {kind} matrix exceeded the logical step bound {bound} (LLL-HNF {steps_h}, eliminate {steps_e}, diag {steps_d}): it does not terminate in bounded steps"), wit(json!(null)));
                return
            }
            if !unbounded && p.is_overflow() { ctx.inconclusive("overflow_machine_int"); return }
            ctx.violation(&format!("C09/{tname}/panic"), &format!("snf panicked on a {m}x{n} {kind} matrix: {}", p.brief()), wit(json!(null)));
            return
        }
    };

    let d = mat_to_o(res.result());
    let mut bad: Option<(String, String)> = None;
    macro_rules! fail { ($k:expr, $msg:expr) => { if bad.is_none() { bad = Some(($k.to_string(), $msg)) } }; }

    if (d.m, d.n) != (m, n) { fail!("shape", format!("result is {}x{}", d.m, d.n)) }
    else if !d.is_diag() { fail!("not-diagonal", format!("D = {}", d.show())) }
    else {
        let r = m.min(n);
        let diag: Vec<T::O> = (0..r).map(|i| d.at(i, i).clone()).collect();
        let nz: Vec<T::O> = diag.iter().filter(|x| !x.is0()).cloned().collect();
        if diag.iter().skip_while(|x| !x.is0()).any(|x| !x.is0()) { fail!("zero-before-nonzero", format!("diagonal {:?}", diag.iter().map(|x| x.show()).collect::<Vec<_>>())) }
        for i in 0..nz.len() {
            // normalised: library fixed point + orbit constancy; universal convention for Z, fields, K[x]
            let x = &res.result()[(i, i)];
            if x.normalized() != *x { fail!("not-normalized", format!("d[{i}] = {} is not normalised", nz[i].show())) }
            if !is_quad::<T>() && !nz[i].is_normalized() { fail!("not-normalized", format!("d[{i}] = {} is not normalised", nz[i].show())) }
            if i + 1 < nz.len() && !nz[i].divides(&nz[i + 1]) { fail!("chain", format!("d[{i}] = {} does not divide d[{}] = {}", nz[i].show(), i + 1, nz[i + 1].show())) }
        }
        // invariant factors: textbook SNF of A
        let own = ao.snf_diag();
        if own.len() != nz.len() { fail!("rank", format!("rank {} but the textbook SNF has rank {}", nz.len(), own.len())) }
        else if let Some(i) = (0..own.len()).find(|&i| !own[i].associate(&nz[i])) {
            fail!("factors", format!("d[{i}] = {} is not an associate of the invariant factor {}", nz[i].show(), own[i].show()))
        }
        if m <= 4 && n <= 4 && ao.max_bits() < 200 && bad.is_none() {
            let g = ao.minor_gcds();
            let mut prod = T::O::o1();
            for i in 0..nz.len() {
                prod = prod.mul(&nz[i]);
                if !prod.associate(&g[i]) { fail!("minors", format!("d[0..={i}] product {} is not an associate of the gcd of {}-minors {}", prod.show(), i + 1, g[i].show())); break }
            }
            for i in nz.len()..g.len() { if !g[i].is0() { fail!("minors", format!("gcd of {}-minors is {} but rank is {}", i + 1, g[i].show(), nz.len())); break } }
        }
        if res.rank() != nz.len() { fail!("rank-accessor", format!("rank() = {} but {} non-zero diagonal entries", res.rank(), nz.len())) }
        let f: Vec<T::O> = res.factors().iter().map(|x| x.to_o()).collect();
        if f != nz { fail!("factors-accessor", "factors() differs from the non-zero diagonal".into()) }
    }

    // transforms
    let p = res.p().map(mat_to_o);
    let pinv = res.pinv().map(mat_to_o);
    let q = res.q().map(mat_to_o);
    let qinv = res.qinv().map(mat_to_o);
    // bulk accessors: trans() and destruct() hand out the same matrices in the order [p, pinv, q, qinv]
    {
        let t: Vec<Option<OMat<T::O>>> = res.trans().iter().map(|x| x.map(mat_to_o)).collect();
        let single = vec![p.clone(), pinv.clone(), q.clone(), qinv.clone()];
        if t != single { fail!("trans-accessor", "trans() differs from [p(), pinv(), q(), qinv()]".into()) }
        // destruct() consumes the result: a second (in-place) run on the same input, one case in four
        if rng.chance(1, 4) {
            if let Ok(r2) = guarded(|| yui_matrix::dense::snf::snf_in_place(a.clone(), flags)) {
                let same_single = vec![r2.p().map(mat_to_o), r2.pinv().map(mat_to_o), r2.q().map(mat_to_o), r2.qinv().map(mat_to_o)];
                let d2 = mat_to_o(r2.result());
                let (dres, dt) = r2.destruct();
                let dt: Vec<Option<OMat<T::O>>> = dt.iter().map(|x| x.as_ref().map(mat_to_o)).collect();
                if dt != same_single || mat_to_o(&dres) != d2 { fail!("destruct-accessor", "destruct() differs from result() and [p(), pinv(), q(), qinv()] of the same run".into()) }
                if same_single != single || d2 != mat_to_o(res.result()) { fail!("snf-in-place-differs", "snf_in_place on a copy returns a different result than snf on the same input".into()) }
            }
        }
    }
    for (name, x, flag, sz) in [("p", &p, flags[0], m), ("pinv", &pinv, flags[1], m), ("q", &q, flags[2], n), ("qinv", &qinv, flags[3], n)] {
        if x.is_some() != flag { fail!("flags", format!("{name} present = {} but flag = {}", x.is_some(), flag)) }
        if let Some(x) = x { if (x.m, x.n) != (sz, sz) { fail!("shape", format!("{name} is {}x{}", x.m, x.n)) } }
    }
    if bad.is_none() {
        if let (Some(p), Some(pi)) = (&p, &pinv) { if !p.mul(pi).is_id() || !pi.mul(p).is_id() { fail!("p-pinv", "P * P^-1 != I".into()) } }
        if let (Some(q), Some(qi)) = (&q, &qinv) { if !q.mul(qi).is_id() || !qi.mul(q).is_id() { fail!("q-qinv", "Q * Q^-1 != I".into()) } }
        match (&p, &pinv, &q, &qinv) {
            (Some(p), _, Some(q), _) if p.mul(&ao).mul(q) != d => fail!("paq", "D != P A Q".into()),
            (Some(p), _, None, Some(qi)) if p.mul(&ao) != d.mul(qi) => fail!("pa-dqinv", "P A != D Q^-1".into()),
            (None, Some(pi), Some(q), _) if ao.mul(q) != pi.mul(&d) => fail!("aq-pinvd", "A Q != P^-1 D".into()),
            (None, Some(pi), None, Some(qi)) if ao != pi.mul(&d).mul(qi) => fail!("a-pinv-d-qinv", "A != P^-1 D Q^-1".into()),
            _ => {}
        }
        // a lone transform must at least be unimodular
        for (name, x) in [("p", &p), ("pinv", &pinv), ("q", &q), ("qinv", &qinv)] {
            if let Some(x) = x {
                if x.m <= 6 && x.max_bits() < 400 {
                    let f = x.snf_diag();
                    if f.len() != x.m || f.iter().any(|y| !y.is_unit()) { fail!("unimodular", format!("{name} is not unimodular")) }
                }
            }
        }
    }

    if let Some((k, msg)) = bad {
        ctx.violation(&format!("C09/{tname}/{k}"), &msg, wit(json!({"D": d.show(), "P": p.map(|x| x.show()), "Q": q.map(|x| x.show())})));
        return
    }
    let rank = (0..m.min(n)).filter(|&i| !d.at(i, i).is0()).count();
    let class = format!("{tname}/{kind}");
    ctx.ok(&class, rank >= 2 || ao.max_bits() > 53, hash_of(&(ao.show(), flags)));
    if ctx.want_sample(&class) { ctx.sample(&class, json!({"A": ao.show(), "flags": flags, "D": d.show(), "steps": [steps_h, steps_e, steps_d]})) }
}

pub fn run(ctx: &mut Ctx) {
    let n = ctx.by_tier(10_000u64, 600_000);
    macro_rules! go {
        ($t:ty, $unb:expr) => { ctx.random_cases(&<$t as Bridge>::name(), n, |c, r| case::<$t>(c, r, $unb, None)); };
        ($t:ty, $unb:expr, $dim:expr) => { ctx.random_cases(&<$t as Bridge>::name(), n, |c, r| case::<$t>(c, r, $unb, Some($dim))); };
    }
    go!(BigInt, true);
    go!(i64, false);
    go!(i128, false);
    go!(GaussInt<BigInt>, true);
    go!(EisenInt<BigInt>, true);
    go!(GaussInt<i64>, false);
    go!(EisenInt<i64>, false);
    go!(GaussInt<i128>, false);
    go!(Ratio<BigInt>, true);
    go!(Ratio<i64>, false);
    go!(FF<2>, true);
    go!(FF<3>, true);
    go!(FF<5>, true);
    go!(yui::FF2, true);
    go!(Poly<'x', Ratio<BigInt>>, true, 4);
    go!(Poly<'x', FF<3>>, true);
    go!(Poly<'x', FF<2>>, true);
    let _ = Mat::<i64>::zero((0, 0)).is_zero();
}
