// C01 — Khovanov homology equals the cube-of-resolutions definition.
// Oracle: definition-level cube built from the raw PD code over Z with integer (h,t), homology by
// own unit-pivot cancellation + textbook SNF (mod p for the prime fields). The library is driven
// through KhHomology / KhComplexBigraded / KhHomologyBigraded and through the public tangle
// builder with explicit crossing orders and step policies, on rayon pools of different sizes.

use std::collections::BTreeMap;
use std::sync::OnceLock;

use num_bigint::BigInt;
use serde_json::json;
use yui::{EucRingOps, Ratio, FF, FF2};

use crate::ctx::{guarded, hash_of, Ctx, Rng};
use crate::diag::*;
use crate::khx::*;
use crate::oracle::kh::build_cube;
use crate::oracle::link::PD;

pub fn pools() -> &'static BTreeMap<usize, rayon::ThreadPool> {
    static P: OnceLock<BTreeMap<usize, rayon::ThreadPool>> = OnceLock::new();
    P.get_or_init(|| [1usize, 2, 4, 16].into_iter().map(|k| (k, rayon::ThreadPoolBuilder::new().num_threads(k).build().expect("pool"))).collect())
}

/// a diagram for the oracle-checked properties: table diagrams and simple derived ones, at most `maxc` crossings
pub fn gen_diagram(rng: &mut Rng, maxc: usize) -> (PD, String) {
    match rng.below(20) {
        0 => return (PD::new(vec![]), "empty link".into()),
        1 => return (PD::new(vec![[1, 2, 2, 1]]), "one-kink unknot".into()),
        2 => return (PD::new(vec![[1, 1, 2, 2]]), "one-kink unknot (positive)".into()),
        3 => { let p = PD::new(vec![[1, 2, 2, 1]]); if let Ok(q) = p.r1(1, rng.below(4)) { return (q, "two-kink unknot".into()) } }
        _ => {}
    }
    let (name, base) = pick_table(rng, 2, maxc);
    let mut pd = base;
    let mut origin = format!("table {name}");
    for _ in 0..rng.below(3) {
        match rng.below(7) {
            0 => { if pd.n() < maxc { let es = pd.edges(); let e = *rng.choose(&es); if let Ok(p) = pd.r1(e, rng.below(4)) { pd = p; origin += " +kink" } } }
            1 => { let (n2, o) = pick_table(rng, 2, 4); if pd.n() + o.n() <= maxc { pd = pd.disjoint_union(&o); origin += &format!(" ⊔ {n2}") } }
            2 => { let (n2, o) = pick_table(rng, 3, 4); if pd.n() + o.n() <= maxc { let (e, f) = (*rng.choose(&pd.edges()), *rng.choose(&o.edges())); if let Ok(p) = pd.connected_sum(e, &o, f) { pd = p; origin += &format!(" # {n2}") } } }
            3 => { if pd.n() > 0 { let k = rng.below(pd.n()); pd = pd.switch_crossing(k); origin += &format!(" switch{k}") } }
            4 => { pd = pd.mirror_flags(); origin += " mirror" }
            5 => { pd = pd.reverse_all(); origin += " reversed" }
            _ => { pd = random_relabel(rng, &pd); let p = rng.perm(pd.n()); pd = pd.permute_crossings(&p); origin += " relabelled" }
        }
    }
    (pd, origin)
}

pub const HT: [(i64, i64); 8] = [(0, 0), (1, 0), (0, 1), (2, 0), (1, 1), (2, 3), (-1, 2), (3, -2)];

fn case<R: KhRing>(ctx: &mut Ctx, rng: &mut Rng) where for<'x> &'x R: EucRingOps<R> {
    let rname = R::rname();
    let maxc = ctx.by_tier(8, 10);
    let (pd, origin) = gen_diagram(rng, maxc);
    if pd.validate().is_err() || pd.n_free() > 0 { ctx.inconclusive("generator_invalid_diagram"); return }
    let n = pd.n();
    let (h, t) = if rng.chance(2, 5) { (0, 0) } else { *rng.choose(&HT) };
    let reduced = t == 0 && n > 0 && rng.chance(1, 3);
    let cfg = if rng.chance(3, 5) { BuildCfg::default_cfg() } else {
        let order = if rng.chance(2, 3) { Some(if rng.chance(1, 4) { (0..n).rev().collect() } else { rng.perm(n) }) } else { None };
        let (ad, ae) = if n <= 6 { (rng.chance(3, 4), rng.chance(3, 4)) } else { (rng.chance(3, 4), true) };
        // a third of the non-default builds are divide-and-conquer: two halves glued by TngComplex::connect
        let split = if n >= 2 && rng.chance(1, 3) { Some(rng.urange(1, n - 1)) } else { None };
        // a quarter of the remaining ones restrict the homological range at some moment of the build
        let h_range = if split.is_none() && n >= 2 && rng.chance(1, 4) {
            let n_neg = pd.signs(0).map(|s| s.iter().filter(|x| **x < 0).count()).unwrap_or(0) as isize;
            let (c0, c1) = (-n_neg, -n_neg + n as isize);
            let h0 = rng.range((c0 - 1) as i64, (c1 - 1) as i64) as isize;
            let h1 = rng.range((h0 + 2) as i64, (c1 + 1) as i64) as isize;
            Some((rng.urange(0, n), h0, h1))
        } else { None };
        BuildCfg { order, auto_deloop: ad, auto_elim: ae, split, h_range }
    };
    let nthreads = *rng.choose(&[1usize, 2, 4, 16]);
    let base = if reduced { pd.x.first().map(|c| *c.iter().min().unwrap()) } else { None };
    let conf = json!({"ring": rname, "origin": origin, "h": h, "t": t, "reduced": reduced, "order": cfg.order, "auto_deloop": cfg.auto_deloop, "auto_elim": cfg.auto_elim, "split": cfg.split, "h_range_after_k": cfg.h_range, "threads": nthreads});
    let wit = |extra: serde_json::Value| json!({"config": conf, "pd": pd.x, "switched": pd.neg, "detail": extra});
    if ctx.replaying() { eprintln!("replaying: {} pd={:?} switched={:?}", conf, pd.x, pd.neg) }

    // oracle
    let cube = match build_cube(&pd, h, t, reduced, base) { Ok(c) => c, Err(e) => { ctx.inconclusive("oracle_budget"); ctx.note(format!("cube oracle: {e}")); return } };
    if let Err(e) = cube.complex.check_dd() { ctx.inconclusive("oracle_selfcheck_failed"); ctx.note(format!("oracle cube d^2: {e} ({origin})")); return }
    let kind = R::kind();
    let exp_total: BTreeMap<i64, usize>;
    let mut exp_tors: Option<Total> = None;
    match kind {
        RingKind::Z | RingKind::Q => {
            let hz = match cube.homology() { Ok(x) => x, Err(e) => { ctx.inconclusive("oracle_budget"); ctx.note(format!("oracle homology: {e}")); return } };
            let tot = oracle_total(&hz);
            exp_total = tot.iter().filter(|(_, v)| v.0 > 0).map(|(k, v)| (*k, v.0)).collect();
            if kind == RingKind::Z { exp_tors = Some(tot) }
        }
        RingKind::Fp(p) => {
            let hp = match cube.homology_fp(p) { Ok(x) => x, Err(e) => { ctx.inconclusive("oracle_budget"); ctx.note(format!("oracle homology mod p: {e}")); return } };
            exp_total = hp.into_iter().filter(|x| x.1 > 0).collect();
        }
    }

    // library
    let l = to_link(&pd);
    let pool = &pools()[&nthreads];
    let (cfg2, l2) = (cfg.clone(), l.clone());
    let bigr = h == 0 && t == 0 && cfg.h_range.is_none();
    // with a restricted range only the degrees strictly inside it are determined by the truncated complex
    let inside = |i: i64| match cfg.h_range { Some((_, h0, h1)) => (h0 as i64) < i && i < (h1 as i64), None => true };
    let exp_total: BTreeMap<i64, usize> = exp_total.into_iter().filter(|(k, _)| inside(*k)).collect();
    let exp_tors: Option<Total> = exp_tors.map(|t| t.into_iter().filter(|(k, _)| inside(*k)).collect());
    let res = guarded(move || pool.install(move || {
        let tot = kh_total::<R>(&l2, h, t, reduced, &cfg2);
        let tabs = if bigr { Some((kh_table_pieces::<R>(&l2, reduced, &cfg2), kh_table_total::<R>(&l2, reduced, &cfg2))) } else { None };
        (tot, tabs)
    }));
    let (tot, tabs) = match res {
        Ok(x) => x,
        Err(p) => {
            if matches!(R::rname(), "i64" | "Ratio<i64>") && p.is_overflow() { ctx.inconclusive("overflow_machine_int"); return }
            ctx.violation(&format!("C01/{rname}/panic"), &format!("Khovanov homology computation panicked: {}", p.brief()), wit(json!(null)));
            return
        }
    };
    let tot: Total = tot.into_iter().filter(|(k, _)| inside(*k)).collect();
    let lib_ranks: BTreeMap<i64, usize> = tot.iter().filter(|(_, v)| v.0 > 0).map(|(k, v)| (*k, v.0)).collect();
    if lib_ranks != exp_total {
        ctx.violation(&format!("C01/{rname}/rank"), &format!("ranks per homological degree {:?} differ from the cube of resolutions {:?}", lib_ranks, exp_total), wit(json!({"library": tot})));
        return
    }
    match &exp_tors {
        Some(e) => if &tot != e {
            ctx.violation(&format!("C01/{rname}/torsion"), &format!("library {:?}, cube of resolutions {:?}", tot, e), wit(json!(null)));
            return
        },
        None => if tot.values().any(|v| !v.1.is_empty()) {
            ctx.violation(&format!("C01/{rname}/torsion-over-field"), &format!("torsion reported over a field: {:?}", tot), wit(json!(null)));
            return
        },
    }
    if let Some((pieces, total)) = tabs {
        let zt = match kind {
            RingKind::Fp(p) => cube.bigraded_fp(p).map(|m| m.into_iter().map(|(k, r)| (k, (r, vec![]))).collect::<Table>()),
            _ => cube.bigraded().map(|m| oracle_table(&m)),
        };
        let zt = match zt { Ok(x) => x, Err(e) => { ctx.inconclusive("oracle_budget"); ctx.note(format!("oracle bigraded: {e}")); return } };
        let exp: Table = if kind == RingKind::Q { zt.iter().filter(|(_, v)| v.0 > 0).map(|(k, v)| (*k, (v.0, vec![]))).collect() } else { zt };
        for (route, tab) in [("pieces", &pieces), ("total", &total)] {
            if tab != &exp {
                ctx.violation(&format!("C01/{rname}/bigraded-{route}"), &format!("bigraded table by route '{route}' {:?} differs from the cube of resolutions {:?}", tab, exp), wit(json!(null)));
                return
            }
        }
    }
    // truncations of the finished objects (one case in five): KhHomology::truncated is the restriction of the
    // homology; KhComplex::truncated keeps the homology in the degrees strictly inside the range
    if cfg.h_range.is_none() && n >= 2 && rng.chance(1, 5) {
        let lo = tot.keys().min().cloned().unwrap_or(0) as isize - 1;
        let hi = tot.keys().max().cloned().unwrap_or(0) as isize + 1;
        let r0 = rng.range(lo as i64, hi as i64) as isize;
        let r1 = rng.range(r0 as i64, hi as i64) as isize;
        let (cfg3, l3) = (cfg.clone(), l.clone());
        match guarded(move || kh_truncations::<R>(&l3, h, t, reduced, &cfg3, r0, r1)) {
            Ok((ht, ct, hr, inside)) => {
                let restr: Total = tot.iter().filter(|(k, _)| (r0 as i64) <= **k && **k <= (r1 as i64)).map(|(k, v)| (*k, v.clone())).collect();
                let interior = |x: &Total| -> Total { x.iter().filter(|(k, _)| (r0 as i64) < **k && **k < (r1 as i64)).map(|(k, v)| (*k, v.clone())).collect() };
                if ht != restr { ctx.violation(&format!("C01/{rname}/homology-truncated"), &format!("KhHomology::truncated({r0}..={r1}) = {:?}, the homology restricted to that range is {:?}", ht, restr), wit(json!(null))); return }
                if interior(&ct) != interior(&restr) { ctx.violation(&format!("C01/{rname}/complex-truncated"), &format!("homology of KhComplex::truncated({r0}..={r1}) = {:?} differs from the full homology {:?} strictly inside the range", ct, restr), wit(json!(null))); return }
                if !inside || tot.keys().any(|k| (*k as isize) < hr.0 || (*k as isize) > hr.1) { ctx.violation(&format!("C01/{rname}/ranges"), &format!("h_range {:?} / q_range do not contain every generator and every non-zero homology group", hr), wit(json!(null))); return }
                ctx.count("truncation_checks", 1);
            }
            Err(p) => { if !(matches!(R::rname(), "i64" | "Ratio<i64>") && p.is_overflow()) { ctx.violation(&format!("C01/{rname}/panic"), &format!("truncated() panicked: {}", p.brief()), wit(json!(null))); return } }
        }
    }
    let class = format!("{rname}/{}", if reduced { "reduced" } else { "unreduced" });
    let nt = n >= 3 || pd.components().len() >= 2 || (h, t) != (0, 0);
    ctx.ok(&class, nt, hash_of(&(&pd.x, &pd.neg, h, t, reduced, &cfg.order, cfg.auto_deloop, cfg.auto_elim, nthreads)));
    ctx.count(&format!("ht/{h},{t}"), 1);
    if cfg.order.is_some() || !cfg.auto_deloop || !cfg.auto_elim || cfg.split.is_some() || cfg.h_range.is_some() { ctx.count("non_default_build_configs", 1) }
    if cfg.split.is_some() { ctx.count("divide_and_conquer_builds", 1) }
    if cfg.h_range.is_some() { ctx.count("restricted_h_range_builds", 1) }
    if ctx.want_sample(&class) { ctx.sample(&class, json!({"config": conf, "pd": pd.x, "homology": tot})) }
}

// ---- second opinion: the library's first-generation engine (explicit cube, cargo feature `old`), run in a
// separate process (`vh-old`, built by the driver from the same tree). It shares alg.rs and the homology
// layer with the engine under test but none of the tangle / cobordism code, and it reaches 11 crossings.

struct OldEngine { child: std::process::Child, stdin: std::process::ChildStdin, lines: std::sync::mpsc::Receiver<String> }

fn spawn_old() -> Option<OldEngine> {
    use std::io::BufRead;
    let bin = std::env::var("VERIF_OLD").ok()?;
    let mut child = std::process::Command::new(bin).stdin(std::process::Stdio::piped()).stdout(std::process::Stdio::piped()).stderr(std::process::Stdio::null()).spawn().ok()?;
    let stdin = child.stdin.take()?;
    let stdout = std::io::BufReader::new(child.stdout.take()?);
    let (tx, rx) = std::sync::mpsc::channel();
    std::thread::spawn(move || { for l in stdout.lines() { let Ok(l) = l else { break }; if tx.send(l).is_err() { break } } });
    Some(OldEngine { child, stdin, lines: rx })
}

fn old_engine() -> &'static std::sync::Mutex<Option<OldEngine>> {
    static E: OnceLock<std::sync::Mutex<Option<OldEngine>>> = OnceLock::new();
    E.get_or_init(|| std::sync::Mutex::new(spawn_old()))
}

/// seconds the old engine may take for one request; an overrun is inconclusive (the process is killed
/// and restarted for the next request), never a verdict
const OLD_TIMEOUT_S: u64 = 90;

fn ask_old(pd: &PD, h: i64, t: i64, reduced: bool, ring: &str) -> Result<Total, String> {
    use std::io::Write;
    let mut g = old_engine().lock().map_err(|_| "poisoned")?;
    if g.is_none() { *g = spawn_old() }
    let Some(e) = g.as_mut() else { return Err("old engine unavailable".into()) };
    let req = json!({"pd": pd.x, "neg": pd.neg, "h": h, "t": t, "reduced": reduced, "ring": ring});
    let sent = writeln!(e.stdin, "{}", req).and_then(|_| e.stdin.flush());
    if let Err(err) = sent { let _ = e.child.kill(); let _ = e.child.wait(); *g = None; return Err(format!("old engine: write failed: {err}")) }
    let line = match crate::ctx::external(|| e.lines.recv_timeout(std::time::Duration::from_secs(OLD_TIMEOUT_S))) {
        Ok(l) => l,
        Err(err) => { let _ = e.child.kill(); let _ = e.child.wait(); *g = None; return Err(format!("old engine: no answer ({err})")) }
    };
    let v: serde_json::Value = serde_json::from_str(&line).map_err(|e| format!("{e}: {line}"))?;
    if let Some(err) = v.get("error") { return Err(format!("old engine: {err}")) }
    let mut out = Total::new();
    for (k, val) in v["total"].as_object().ok_or("no total")? {
        let r = val[0].as_u64().unwrap_or(0) as usize;
        let ts: Vec<String> = val[1].as_array().map(|a| a.iter().map(|x| x.as_str().unwrap_or("").to_string()).collect()).unwrap_or_default();
        out.insert(k.parse().map_err(|_| "bad degree")?, (r, ts));
    }
    Ok(out)
}

fn old_case<R: KhRing>(ctx: &mut Ctx, rng: &mut Rng, ring: &str) where for<'x> &'x R: EucRingOps<R> {
    let maxc = ctx.by_tier(10, 11);
    let (name, mut pd) = pick_table(rng, 3, maxc);
    let mut origin = format!("table {name}");
    if rng.chance(1, 4) { let k = rng.below(pd.n()); pd = pd.switch_crossing(k); origin += &format!(" switch{k}") }
    if rng.chance(1, 4) { pd = pd.mirror_flags(); origin += " mirror" }
    if pd.validate().is_err() || pd.n_free() > 0 { ctx.inconclusive("generator_invalid_diagram"); return }
    let (h, t) = if rng.chance(1, 2) { (0, 0) } else { *rng.choose(&HT) };
    let reduced = t == 0 && rng.chance(1, 3);
    let exp = match ask_old(&pd, h, t, reduced, ring) { Ok(x) => x, Err(e) => { ctx.inconclusive(if e.contains("no answer") { "old_engine_timeout" } else { "old_engine_unavailable_or_failed" }); ctx.note(format!("{e} on {origin} h={h} t={t} reduced={reduced} ring={ring}")); return } };
    let l = to_link(&pd);
    let conf = json!({"ring": ring, "origin": origin, "h": h, "t": t, "reduced": reduced});
    match guarded(move || kh_total::<R>(&l, h, t, reduced, &BuildCfg::default_cfg())) {
        Ok(got) => {
            if got != exp {
                ctx.violation(&format!("C01/{}/differs-from-cube-engine", R::rname()), &format!("the tangle-based engine reports {:?}, the library's explicit cube engine (feature `old`) reports {:?}", got, exp), json!({"config": conf, "pd": pd.x, "switched": pd.neg}));
                return
            }
            ctx.ok(&format!("{}/vs-old-engine", R::rname()), true, hash_of(&(&pd.x, &pd.neg, h, t, reduced)));
            ctx.maxv("max_crossings_vs_old_engine", pd.n() as i64);
        }
        Err(e) => { if e.is_overflow() { ctx.inconclusive("overflow_machine_int") } else { ctx.violation(&format!("C01/{}/panic", R::rname()), &format!("panicked: {}", e.brief()), json!({"config": conf, "pd": pd.x})) } }
    }
}

pub fn run(ctx: &mut Ctx) {
    let n = ctx.by_tier(3_000u64, 60_000);
    let m = ctx.by_tier(300u64, 12_000);
    ctx.random_cases_share("old/Z", m, 0.10, |c, r| old_case::<i64>(c, r, "Z"));
    ctx.random_cases_share("old/Q", m / 2, 0.05, |c, r| old_case::<Ratio<i64>>(c, r, "Q"));
    ctx.random_cases_share("old/F2", m / 2, 0.05, |c, r| old_case::<FF<2>>(c, r, "F2"));
    ctx.random_cases_share("old/F3", m / 2, 0.05, |c, r| old_case::<FF<3>>(c, r, "F3"));
    ctx.random_cases("i64", n * 2, |c, r| case::<i64>(c, r));
    ctx.random_cases("BigInt", n, |c, r| case::<BigInt>(c, r));
    ctx.random_cases("Ratio<i64>", n, |c, r| case::<Ratio<i64>>(c, r));
    ctx.random_cases("FF2", n, |c, r| case::<FF2>(c, r));
    ctx.random_cases("FF<2>", n / 2, |c, r| case::<FF<2>>(c, r));
    ctx.random_cases("FF<3>", n, |c, r| case::<FF<3>>(c, r));
}
