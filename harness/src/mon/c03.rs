// C03 — tables over Z, Q, F2, F3 are mutually consistent (universal coefficients), the two library
// routes to a bigraded table agree, and over F2 the unreduced table is the reduced one tensored with the
// unknot's. The oracle is the arithmetic relation itself, evaluated by the monitor on real computations.

use std::collections::BTreeMap;

use num_bigint::BigInt;
use serde_json::json;
use yui::{Ratio, FF, FF2};

use crate::ctx::{guarded, hash_of, Ctx, Rng};
use crate::diag::*;
use crate::khx::*;
use crate::mon::c01::pools;
use crate::oracle::link::{braid_closure, PD};

struct Tables {
    z_pieces: Table, z_total: Table, z128: Option<Table>, zbig: Option<Table>,
    q: Table, q_total: Table, f2: Table, f2b: Table, f3: Table, f2_total: Table, f3_total: Table,
    red_f2: Option<Table>, red_z_pieces: Option<Table>, red_z_total: Option<Table>,
    z_windowed: Option<Table>, f3_windowed: Option<Table>,
}

fn compute(pd: &PD, heavy: bool) -> Tables {
    let l = to_link(pd);
    let cfg = BuildCfg::default_cfg();
    let nonempty = pd.n() > 0;
    Tables {
        z_pieces: kh_table_pieces::<i64>(&l, false, &cfg),
        z_total: kh_table_total::<i64>(&l, false, &cfg),
        z128: if heavy { None } else { Some(kh_table_pieces::<i128>(&l, false, &cfg)) },
        zbig: if heavy { None } else { Some(kh_table_total::<BigInt>(&l, false, &cfg)) },
        q: kh_table_pieces::<Ratio<i64>>(&l, false, &cfg),
        q_total: kh_table_total::<Ratio<i64>>(&l, false, &cfg),
        f2: kh_table_pieces::<FF2>(&l, false, &cfg),
        f2b: kh_table_pieces::<FF<2>>(&l, false, &cfg),
        f3: kh_table_pieces::<FF<3>>(&l, false, &cfg),
        f2_total: kh_table_total::<FF2>(&l, false, &cfg),
        f3_total: kh_table_total::<FF<3>>(&l, false, &cfg),
        red_f2: if nonempty { Some(kh_table_pieces::<FF2>(&l, true, &cfg)) } else { None },
        red_z_pieces: if nonempty && !heavy { Some(kh_table_pieces::<i64>(&l, true, &cfg)) } else { None },
        red_z_total: if nonempty && !heavy { Some(kh_table_total::<i64>(&l, true, &cfg)) } else { None },
        z_windowed: if nonempty && !heavy && pd.n() <= 9 { Some(kh_table_windowed::<i64>(&l, false)) } else { None },
        f3_windowed: if nonempty && !heavy && pd.n() <= 9 { Some(kh_table_windowed::<FF<3>>(&l, false)) } else { None },
    }
}

/// (key suffix, message) for every inconsistency (all relations are judged, so that a listed known finding on
/// one relation does not hide a different failure on the same link)
fn judge(t: &Tables) -> Vec<(&'static str, String)> {
    let mut out: Vec<(&'static str, String)> = vec![];
    if t.z_pieces != t.z_total {
        let diff: Vec<String> = t.z_pieces.keys().chain(t.z_total.keys()).collect::<std::collections::BTreeSet<_>>().into_iter()
            .filter(|k| t.z_pieces.get(k) != t.z_total.get(k)).map(|k| format!("{:?}: pieces {:?} / total {:?}", k, t.z_pieces.get(k), t.z_total.get(k))).collect();
        out.push(("two-routes", format!("over Z the table from the total homology differs from the homology of the bigraded pieces at {}", diff.join("; "))))
    }
    if let Some(x) = &t.z128 { if x != &t.z_pieces { out.push(("i128-vs-i64", "tables over i128 and i64 differ".into())) } }
    if let Some(x) = &t.zbig { if x != &t.z_pieces { out.push(("bigint-vs-i64", "tables over BigInt and i64 differ".into())) } }
    if t.q != t.q_total { out.push(("two-routes-q", "over Q the two routes differ".into())) }
    if t.f2 != t.f2_total { out.push(("two-routes-f2", "over F2 the two routes differ".into())) }
    if t.f3 != t.f3_total { out.push(("two-routes-f3", "over F3 the two routes differ".into())) }
    if t.f2 != t.f2b { out.push(("ff2-vs-ff<2>", "FF2 and FF<2> give different tables".into())) }
    if let (Some(a), Some(b)) = (&t.red_z_pieces, &t.red_z_total) { if a != b { out.push(("two-routes-reduced", "reduced theory over Z: the two routes differ".into())) } }
    if let Some(x) = &t.z_windowed { if x != &t.z_pieces { out.push(("windowed-z", format!("over Z the table assembled column by column from truncated windows {:?} differs from the table of the whole complex {:?}", x, t.z_pieces))) } }
    if let Some(x) = &t.f3_windowed { if x != &t.f3 { out.push(("windowed-f3", "over F3 the table assembled column by column from truncated windows differs from the table of the whole complex".into())) } }
    let z = &t.z_pieces;
    if ranks_of(&t.q) != expected_over(RingKind::Q, z) || t.q.values().any(|v| !v.1.is_empty()) {
        out.push(("q-vs-z", format!("ranks over Q {:?} differ from the free ranks over Z {:?}", ranks_of(&t.q), expected_over(RingKind::Q, z))))
    }
    for (p, tab, key) in [(2i64, &t.f2, "f2-vs-z"), (3, &t.f3, "f3-vs-z")] {
        let exp = expected_over(RingKind::Fp(p), z);
        if ranks_of(tab) != exp {
            let diff: Vec<String> = exp.keys().chain(ranks_of(tab).keys()).collect::<std::collections::BTreeSet<_>>().into_iter()
                .filter(|k| exp.get(k) != ranks_of(tab).get(k)).map(|k| format!("{:?}: F{p} {:?}, expected {:?}", k, ranks_of(tab).get(k), exp.get(k))).collect();
            out.push((key, format!("dimensions over F{p} violate the universal coefficient relation at {}", diff.join("; "))))
        }
    }
    if let Some(r) = &t.red_f2 {
        let mut exp: BTreeMap<(i64, i64), usize> = BTreeMap::new();
        for (&(i, j), (d, _)) in r { *exp.entry((i, j - 1)).or_insert(0) += d; *exp.entry((i, j + 1)).or_insert(0) += d; }
        if ranks_of(&t.f2) != exp { out.push(("f2-reduced-tensor-unknot", "over F2 the unreduced table is not the reduced table tensored with the unknot's".into())) }
    }
    out
}

fn run_link(ctx: &mut Ctx, pd: &PD, name: &str, heavy: bool, class: &str) {
    if pd.validate().is_err() || pd.n_free() > 0 { ctx.inconclusive("generator_invalid_diagram"); return }
    let pd2 = pd.clone();
    let pool = &pools()[&4];
    let res = guarded(move || pool.install(move || compute(&pd2, heavy)));
    let t = match res {
        Ok(t) => t,
        Err(e) => {
            if e.is_overflow() { ctx.inconclusive("overflow_machine_int"); return }
            ctx.violation("C03/panic", &format!("panicked on {name}: {}", e.brief()), json!({"link": name, "pd": pd.x})); return
        }
    };
    let bad = judge(&t);
    if !bad.is_empty() {
        // the key names the relation and the link: a different link failing the same relation is a different finding
        for (k, msg) in bad {
            ctx.violation(&format!("C03/{k}/{name}"), &format!("{name}: {msg}"), json!({"link": name, "pd": pd.x, "switched": pd.neg, "z_pieces": tj(&t.z_pieces), "z_total": tj(&t.z_total)}));
        }
        return
    }
    let has_torsion = t.z_pieces.values().any(|v| !v.1.is_empty());
    ctx.ok(class, has_torsion || pd.components().len() >= 2, hash_of(&(&pd.x, &pd.neg)));
    if has_torsion { ctx.count("links_with_torsion", 1) }
    let odd = t.z_pieces.values().any(|v| v.1.iter().any(|s| s.parse::<u64>().map(|x| x % 2 == 1 || x % 3 == 0).unwrap_or(false)));
    if odd { ctx.count("links_with_odd_torsion", 1) }
    if ctx.want_sample(class) { ctx.sample(class, json!({"link": name, "z": tj(&t.z_pieces), "f2": ranks_of(&t.f2).len(), "f3": ranks_of(&t.f3).len()})) }
}

fn torus_case(ctx: &mut Ctx, p: usize, q: usize) {
    let (n, w) = torus_braid(p, q);
    let Ok(pd) = braid_closure(n, &w) else { return };
    run_link(ctx, &pd, &format!("T({p},{q})"), pd.n() > 20, "torus");
}

/// split unions and connected sums of torus links: torsion of DIFFERENT orders in one homological degree, spread
/// over several quantum degrees (Kuenneth), which single torus knots of this size do not have
fn composite_case(ctx: &mut Ctx, k: usize) {
    let t = |p: usize, q: usize, off: i32| -> Vec<i32> { let one: Vec<i32> = (1..p as i32).map(|x| x + off).collect(); (0..q).flat_map(|_| one.clone()).collect() };
    let (name, n, w): (&str, usize, Vec<i32>) = match k {
        0 => ("T(4,5) ⊔ T(2,3)", 6, { let mut w = t(4, 5, 0); w.extend(t(2, 3, 4)); w }),
        1 => ("T(4,5) # T(2,3)", 5, { let mut w = t(4, 5, 0); w.extend(t(2, 3, 3)); w }),
        2 => ("T(3,5) ⊔ T(3,4)", 6, { let mut w = t(3, 5, 0); w.extend(t(3, 4, 3)); w }),
        _ => ("T(4,5) ⊔ T(2,5)", 6, { let mut w = t(4, 5, 0); w.extend(t(2, 5, 4)); w }),
    };
    let Ok(pd) = braid_closure(n, &w) else { ctx.inconclusive("generator_invalid_diagram"); return };
    run_link(ctx, &pd, name, true, "torus-composite");
}

fn table_case(ctx: &mut Ctx, idx: usize) {
    let (name, _) = &table()[idx];
    let Some(pd) = load_pd(name) else { return };
    run_link(ctx, &pd, name, false, "table");
}

fn random_case(ctx: &mut Ctx, rng: &mut Rng) {
    let (n, w) = random_braid(rng, 5, ctx.by_tier(11, 14));
    let Ok(mut pd) = braid_closure(n, &w) else { return };
    let mut name = format!("closure {:?}", w);
    if rng.chance(1, 3) && pd.n() > 0 { let k = rng.below(pd.n()); pd = pd.switch_crossing(k); name += &format!(" switch{k}") }
    run_link(ctx, &pd, &name, false, "random-closure");
}

pub fn run(ctx: &mut Ctx) {
    // torus links with odd / composite torsion; T(6,7) is the first link on which the two routes disagree (known finding)
    let torus: Vec<(usize, usize)> = if ctx.quick() { vec![(2, 5), (3, 4), (3, 5), (4, 5), (3, 7), (5, 6), (4, 7), (6, 7)] }
        else { vec![(2, 5), (2, 7), (3, 4), (3, 5), (3, 7), (3, 8), (4, 5), (4, 7), (5, 6), (5, 7), (4, 9), (6, 7), (5, 8)] };
    for (i, &(p, q)) in torus.iter().enumerate() { ctx.case("torus", i as u64, |c, _| torus_case(c, p, q)) }
    for k in 0..4usize { ctx.case("torus-composite", k as u64, |c, _| composite_case(c, k)) }
    let t = table();
    let step = ctx.by_tier(5, 1);
    for i in (0..t.len()).step_by(step) { if t[i].1 <= ctx.by_tier(10, 11) { ctx.case("table", i as u64, |c, _| table_case(c, i)) } }
    let n = ctx.by_tier(300u64, 80_000);
    ctx.random_cases("random", n, |c, r| random_case(c, r));
}
