// C07 — homology of any chain complex over a Euclidean domain.
// Planted complexes with known homology; the library result (rank, torsion, generators, coordinate
// maps) is judged with the oracle's dense arithmetic and its textbook SNF.

use num_bigint::BigInt;
use serde_json::json;
use yui::lc::Lc;
use yui::poly::Poly;
use yui::{EisenInt, EucRing, EucRingOps, GaussInt, Ratio, FF};
use yui_homology::utils::HomologyCalc;
use yui_homology::{ChainComplexTrait, ComputeHomology, EnumGen, GenericChainComplex, GridTrait, SummandTrait};
use yui_matrix::sparse::SpMat;
use yui_matrix::MatTrait;

use crate::bridge::{Bridge, Mag};
use crate::ctx::{guarded, hash_of, Ctx, Rng};
use crate::matx::*;
use crate::oracle::linalg::OMat;
use crate::oracle::num::*;

pub fn palette<T: Bridge>(rng: &mut Rng, big: bool) -> Vec<T::O> where T::O: OEuc {
    // non-units of the ring: small composites, plus products of random elements
    let mut v: Vec<T::O> = vec![];
    for k in [2i64, 3, 4, 6, 12, 5, 9] { v.push(T::O::from_i64(k)) }
    for _ in 0..6 {
        let x = T::gen(rng, if big { Mag::Big } else { Mag::Small });
        v.push(x);
    }
    for _ in 0..3 { let (a, b) = (rng.below(v.len()), rng.below(v.len())); let p = v[a].mul(&v[b]); v.push(p) }
    v.retain(|x| !x.is0() && !x.is_unit() && T::try_from_o(x).is_some());
    v
}

fn nonunit_factors<O: OEuc>(m: &OMat<O>) -> Vec<O> {
    m.snf_diag().into_iter().filter(|x| !x.is_unit()).collect()
}

fn case<T>(ctx: &mut Ctx, rng: &mut Rng, unbounded: bool, small: bool)
where T: EucRing + Bridge, for<'x> &'x T: EucRingOps<T>, T::O: OEuc {
    let tname = T::name();
    let len = rng.urange(1, 4);
    let max_dim = if small { 4 } else { ctx.by_tier(8, 14) };
    let big = unbounded && !small && rng.chance(1, 6);
    let pal = palette::<T>(rng, big);
    let mag = if unbounded && !small && rng.chance(1, 4) { Mag::Small } else { Mag::Tiny };
    let mix = if rng.chance(1, 5) { 0 } else { rng.urange(1, 3) };
    let tpct = *rng.choose(&[0usize, 30, 60, 100]);
    let pc = planted_complex::<T>(rng, len, max_dim, mag, tpct, mix, &pal);
    let mats: Option<Vec<SpMat<T>>> = pc.d.iter().map(|m| o_to_sp::<T>(m)).collect();
    let Some(mats) = mats else { ctx.inconclusive("generator_unrepresentable"); return };
    for i in 0..len.saturating_sub(1) { assert!(pc.d[i + 1].mul(&pc.d[i]).is_zero(), "generator: d^2 != 0") }
    let dims = pc.dims.clone();
    let shapes: Vec<String> = pc.d.iter().map(|m| m.show()).collect();
    let wit = |deg: usize, extra: serde_json::Value| json!({"type": tname, "dims": dims, "ranks": pc.ranks, "degree": deg, "d": shapes, "detail": extra});

    // route 1: the generic chain complex API
    let mats2 = mats.clone();
    let dims2 = dims.clone();
    let l = len as isize;
    let res = guarded(move || {
        let c = GenericChainComplex::<T>::generate(0..=l, 1, move |i| {
            let i = i as usize;
            if i < mats2.len() { mats2[i].clone() } else { SpMat::zero((0, dims2[i])) }
        });
        let h = c.homology();
        (c, h)
    });
    let (c, h) = match res {
        Ok(x) => x,
        Err(p) => {
            if !unbounded && p.is_overflow() { ctx.inconclusive("overflow_machine_int"); return }
            ctx.violation(&format!("C07/{tname}/panic"), &format!("homology() panicked: {}", p.brief()), wit(0, json!(null)));
            return
        }
    };
    let mut nontrivial = false;
    for i in 0..=len {
        let n = dims[i];
        let r_in = if i > 0 { pc.ranks[i - 1] } else { 0 };
        let r_out = if i < len { pc.ranks[i] } else { 0 };
        let exp_rank = n - r_in - r_out;
        let exp_tors: Vec<T::O> = if i > 0 { nonunit_factors(&pc.d[i - 1]) } else { vec![] };
        let s = &h[i as isize];
        let tors: Vec<T::O> = s.tors().iter().map(|x| x.to_o()).collect();
        if s.rank() != exp_rank {
            ctx.violation(&format!("C07/{tname}/rank"), &format!("H_{i}: rank {} but n - rank(d_in) - rank(d_out) = {n} - {r_in} - {r_out} = {exp_rank}", s.rank()), wit(i, json!(null)));
            return
        }
        if tors.len() != exp_tors.len() || tors.iter().zip(exp_tors.iter()).any(|(a, b)| !a.associate(b)) {
            ctx.violation(&format!("C07/{tname}/torsion"),
                &format!("H_{i}: torsion {:?} but the non-unit invariant factors of d_in are {:?}", tors.iter().map(|x| x.show()).collect::<Vec<_>>(), exp_tors.iter().map(|x| x.show()).collect::<Vec<_>>()),
                wit(i, json!(null)));
            return
        }
        if !exp_tors.is_empty() || (r_in >= 1 && r_out >= 1) { nontrivial = true }
        let dim = s.rank() + s.tors().len();
        // generators are cycles; coordinates of generators are the standard basis
        for k in 0..dim {
            let r = guarded(|| { let g = s.gen(k); let dg = c.d(i as isize, &g); let v = s.vectorize(&g); (g, dg, v) });
            match r {
                Ok((g, dg, v)) => {
                    if !lc_is_zero(&dg) {
                        ctx.violation(&format!("C07/{tname}/gen-not-cycle"), &format!("H_{i}: generator {k} is not a cycle: d(gen) = {dg}"), wit(i, json!({"gen": format!("{g}")})));
                        return
                    }
                    let vo = spvec_to_o(&v);
                    let ok = (0..dim).all(|j| {
                        let e = if j == k { T::O::o1() } else { T::O::o0() };
                        if j < s.rank() { vo[j] == e } else { tors[j - s.rank()].divides(&vo[j].sub(&e)) }
                    });
                    if vo.len() != dim || !ok {
                        ctx.violation(&format!("C07/{tname}/gen-coordinates"), &format!("H_{i}: vectorize(gen({k})) = {:?} is not the standard basis vector", vo.iter().map(|x| x.show()).collect::<Vec<_>>()), wit(i, json!(null)));
                        return
                    }
                }
                Err(p) => {
                    if !unbounded && p.is_overflow() { ctx.inconclusive("overflow_machine_int"); return }
                    ctx.violation(&format!("C07/{tname}/gen-panic"), &format!("gen/vectorize panicked: {}", p.brief()), wit(i, json!(null)));
                    return
                }
            }
        }
        // boundaries have zero coordinates (modulo the torsion orders)
        if i > 0 {
            for j in 0..dims[i - 1] {
                let r = guarded(|| {
                    let e: Lc<EnumGen<isize>, T> = Lc::from((EnumGen((i - 1) as isize, j), T::one()));
                    let b = c.d((i - 1) as isize, &e);
                    (s.vectorize(&b), s.vectorize_euc(&b))
                });
                match r {
                    Ok((v, ve)) => {
                        // coordinates reduced modulo the torsion orders: a boundary must come out as the zero vector
                        if spvec_to_o(&ve).iter().any(|x| !x.is0()) {
                            ctx.violation(&format!("C07/{tname}/boundary-coordinates-reduced"), &format!("H_{i}: vectorize_euc of the boundary d(e_{j}) is {:?}, not zero", spvec_to_o(&ve).iter().map(|x| x.show()).collect::<Vec<_>>()), wit(i, json!(null)));
                            return
                        }
                        let vo = spvec_to_o(&v);
                        let ok = (0..dim).all(|q| if q < s.rank() { vo[q].is0() } else { tors[q - s.rank()].divides(&vo[q]) });
                        if !ok {
                            ctx.violation(&format!("C07/{tname}/boundary-coordinates"), &format!("H_{i}: the boundary d(e_{j}) has coordinates {:?}, not zero modulo the torsion orders", vo.iter().map(|x| x.show()).collect::<Vec<_>>()), wit(i, json!(null)));
                            return
                        }
                    }
                    Err(p) => {
                        if !unbounded && p.is_overflow() { ctx.inconclusive("overflow_machine_int"); return }
                        ctx.violation(&format!("C07/{tname}/vectorize-panic"), &format!("vectorize panicked: {}", p.brief()), wit(i, json!(null)));
                        return
                    }
                }
            }
        }
        // coordinates of an arbitrary cycle z = sum a_k gen(k) (+ a boundary): exact in the free part; every torsion
        // coordinate congruent to a_k modulo ITS OWN order (vectorize and vectorize_euc), and zero after reduction
        // whenever the order divides a_k (the reduced coordinate map separates the zero class from the others)
        if dim > 0 {
            for _ in 0..3 {
                let coeffs: Vec<T::O> = (0..dim).map(|q| {
                    let c0 = match rng.below(6) {
                        0 | 1 => T::O::o0(),
                        2 => T::O::from_i64(rng.urange(1, 7) as i64 - 3),
                        3 if q >= s.rank() && q > s.rank() => tors[q - s.rank() - 1].clone(),          // the previous order
                        4 if q >= s.rank() => tors[q - s.rank()].mul(&T::O::from_i64(rng.urange(0, 2) as i64)), // a multiple of its own
                        _ => if pal.is_empty() { T::O::o1() } else { rng.choose(&pal).clone() },
                    };
                    if T::try_from_o(&c0).is_some() { c0 } else { T::O::o1() }
                }).collect();
                let cs: Vec<T> = coeffs.iter().map(|a| T::try_from_o(a).unwrap()).collect();
                let bj = if i > 0 && dims[i - 1] > 0 && rng.chance(1, 2) { Some(rng.below(dims[i - 1])) } else { None };
                let r = guarded(|| {
                    use num_traits::Zero;
                    let mut z: Lc<EnumGen<isize>, T> = Lc::zero();
                    for (k, a) in cs.iter().enumerate() { if !a.is_zero() { let mut g = s.gen(k); g *= a; z += &g } }
                    if let Some(j) = bj { let e: Lc<EnumGen<isize>, T> = Lc::from((EnumGen((i - 1) as isize, j), T::one())); z += &c.d((i - 1) as isize, &e) }
                    (s.vectorize(&z), s.vectorize_euc(&z))
                });
                match r {
                    Ok((v, ve)) => {
                        let (vo, veo) = (spvec_to_o(&v), spvec_to_o(&ve));
                        for (route, w) in [("vectorize", &vo), ("vectorize_euc", &veo)] {
                            let ok = w.len() == dim && (0..dim).all(|q| if q < s.rank() { w[q] == coeffs[q] } else {
                                let t = &tors[q - s.rank()];
                                t.divides(&w[q].sub(&coeffs[q])) && (route == "vectorize" || !t.divides(&coeffs[q]) || w[q].is0())
                            });
                            if !ok {
                                ctx.violation(&format!("C07/{tname}/cycle-coordinates-{route}"),
                                    &format!("H_{i} (rank {}, torsion {:?}): {route} of z = sum a_k gen(k){} with a = {:?} is {:?}", s.rank(), tors.iter().map(|x| x.show()).collect::<Vec<_>>(),
                                        if bj.is_some() { " + boundary" } else { "" }, coeffs.iter().map(|x| x.show()).collect::<Vec<_>>(), w.iter().map(|x| x.show()).collect::<Vec<_>>()),
                                    wit(i, json!(null)));
                                return
                            }
                        }
                        if tors.len() >= 2 { ctx.count("cycle_coordinates_checked_with_two_or_more_torsion_summands", 1) }
                    }
                    Err(p) => {
                        if !unbounded && p.is_overflow() { ctx.inconclusive("overflow_machine_int"); return }
                        ctx.violation(&format!("C07/{tname}/vectorize-panic"), &format!("vectorize of a combination of generators panicked: {}", p.brief()), wit(i, json!(null)));
                        return
                    }
                }
            }
        }
    }

    // route 1b: the whole-complex computation with and without coordinate maps must report the same groups
    for with_trans in [false, true] {
        match guarded(|| (c.compute_homology(with_trans), (0..=len).map(|i| c.compute_homology_at(i as isize, with_trans)).collect::<Vec<_>>())) {
            Ok((hh, at)) => {
                for i in 0..=len {
                    for (route, s) in [("compute_homology", &hh[i as isize]), ("compute_homology_at", &at[i])] {
                        let a = &h[i as isize];
                        let same = s.rank() == a.rank() && s.tors().len() == a.tors().len()
                            && s.tors().iter().zip(a.tors().iter()).all(|(x, y)| x.to_o().associate(&y.to_o()));
                        if !same {
                            ctx.violation(&format!("C07/{tname}/route-{route}"),
                                &format!("H_{i}: {route}(with_trans = {with_trans}) reports rank {} torsion {:?} but homology() reports rank {} torsion {:?}", s.rank(), s.tors(), a.rank(), a.tors()),
                                wit(i, json!(null)));
                            return
                        }
                    }
                }
            }
            Err(p) => {
                if !unbounded && p.is_overflow() { ctx.inconclusive("overflow_machine_int"); return }
                ctx.violation(&format!("C07/{tname}/compute-panic"), &format!("compute_homology({with_trans}) panicked: {}", p.brief()), wit(0, json!(null)));
                return
            }
        }
    }

    // route 1c: homology assembled by hand on the reduced complex (public `Summand::merge`): the chain summand of
    // c.reduced() merged with compute_homology_at must describe the same group, with generators that are cycles of
    // the ORIGINAL complex and standard coordinates
    if rng.chance(1, 2) {
        let r = guarded(|| {
            let red = c.reduced();
            (0..=len).map(|i| { let mut s = red[i as isize].clone(); s.merge(red.compute_homology_at(i as isize, true)); s }).collect::<Vec<_>>()
        });
        match r {
            Ok(ss) => {
                for i in 0..=len {
                    let (s, a) = (&ss[i], &h[i as isize]);
                    let same = s.rank() == a.rank() && s.tors().len() == a.tors().len() && s.tors().iter().zip(a.tors().iter()).all(|(x, y)| x.to_o().associate(&y.to_o()));
                    if !same { ctx.violation(&format!("C07/{tname}/merged-summand-group"), &format!("H_{i} assembled by Summand::merge on the reduced complex: rank {} torsion {:?}, homology() reports rank {} torsion {:?}", s.rank(), s.tors(), a.rank(), a.tors()), wit(i, json!(null))); return }
                    let dim = s.rank() + s.tors().len();
                    let tors: Vec<T::O> = s.tors().iter().map(|x| x.to_o()).collect();
                    for k in 0..dim {
                        match guarded(|| { let g = s.gen(k); let dg = c.d(i as isize, &g); let v = s.vectorize(&g); (dg, v) }) {
                            Ok((dg, v)) => {
                                if !lc_is_zero(&dg) { ctx.violation(&format!("C07/{tname}/merged-summand-gen-not-cycle"), &format!("H_{i}: generator {k} of the hand-merged summand is not a cycle of the original complex"), wit(i, json!(null))); return }
                                let vo = spvec_to_o(&v);
                                let ok = vo.len() == dim && (0..dim).all(|j| { let e = if j == k { T::O::o1() } else { T::O::o0() }; if j < s.rank() { vo[j] == e } else { tors[j - s.rank()].divides(&vo[j].sub(&e)) } });
                                if !ok { ctx.violation(&format!("C07/{tname}/merged-summand-coordinates"), &format!("H_{i}: vectorize(gen({k})) of the hand-merged summand is {:?}, not the standard basis vector", vo.iter().map(|x| x.show()).collect::<Vec<_>>()), wit(i, json!(null))); return }
                            }
                            Err(p) => {
                                if !unbounded && p.is_overflow() { ctx.inconclusive("overflow_machine_int"); return }
                                ctx.violation(&format!("C07/{tname}/merged-summand-panic"), &format!("gen / vectorize of the hand-merged summand panicked: {}", p.brief()), wit(i, json!(null))); return
                            }
                        }
                    }
                }
                ctx.count("hand_merged_summands_checked", (len + 1) as i64);
            }
            Err(p) => {
                if !unbounded && p.is_overflow() { ctx.inconclusive("overflow_machine_int"); return }
                ctx.violation(&format!("C07/{tname}/merged-summand-panic"), &format!("reduced() / compute_homology_at / Summand::merge panicked: {}", p.brief()), wit(0, json!(null)));
                return
            }
        }
    }

    // route 2: HomologyCalc on a middle pair, checking the transfer matrices with the oracle's arithmetic
    if len >= 2 {
        let i = rng.urange(1, len - 1);
        let (d1, d2) = (mats[i - 1].clone(), mats[i].clone());
        let with_trans = rng.chance(3, 4);
        match guarded(|| HomologyCalc::calculate(d1, d2, with_trans)) {
            Ok((rank, tors, trans)) => {
                let n = dims[i];
                let exp_rank = n - pc.ranks[i - 1] - pc.ranks[i];
                let exp_tors = nonunit_factors(&pc.d[i - 1]);
                let to: Vec<T::O> = tors.iter().map(|x| x.to_o()).collect();
                let mut bad: Option<(&str, String)> = None;
                if rank != exp_rank { bad = Some(("calc-rank", format!("rank {rank}, expected {exp_rank}"))) }
                else if to.len() != exp_tors.len() || to.iter().zip(exp_tors.iter()).any(|(a, b)| !a.associate(b)) { bad = Some(("calc-torsion", "torsion differs from the invariant factors of d_in".into())) }
                else if trans.is_some() != with_trans { bad = Some(("calc-flags", "transform presence does not match the flag".into())) }
                else if let Some(t) = &trans {
                    let f = sp_to_o(&t.forward_mat());
                    let b = sp_to_o(&t.backward_mat());
                    let k = rank + to.len();
                    if (f.m, f.n) != (k, n) || (b.m, b.n) != (n, k) { bad = Some(("calc-shape", format!("forward {}x{}, backward {}x{}", f.m, f.n, b.m, b.n))) }
                    else if !pc.d[i].mul(&b).is_zero() { bad = Some(("calc-gens-not-cycles", "d_out * B != 0".into())) }
                    else if !f.mul(&b).is_id() { bad = Some(("calc-fb", "F * B != I".into())) }
                    else {
                        let fd = f.mul(&pc.d[i - 1]);
                        for q in 0..k { for j in 0..fd.n {
                            let x = fd.at(q, j);
                            let ok = if q < rank { x.is0() } else { to[q - rank].divides(x) };
                            if !ok && bad.is_none() { bad = Some(("calc-boundaries", format!("(F d_in)[{q}][{j}] = {} is not zero modulo torsion", x.show()))) }
                        } }
                    }
                }
                if let Some((k, msg)) = bad {
                    ctx.violation(&format!("C07/{tname}/{k}"), &format!("HomologyCalc at degree {i}: {msg}"), wit(i, json!({"with_trans": with_trans})));
                    return
                }
            }
            Err(p) => {
                if !unbounded && p.is_overflow() { ctx.inconclusive("overflow_machine_int"); return }
                ctx.violation(&format!("C07/{tname}/calc-panic"), &format!("HomologyCalc::calculate panicked: {}", p.brief()), wit(i, json!(null)));
                return
            }
        }
    }
    let class = tname.clone();
    ctx.ok(&class, nontrivial, hash_of(&shapes));
    if ctx.want_sample(&class) { ctx.sample(&class, json!({"dims": dims, "ranks": pc.ranks, "planted_diagonals": pc.diags.iter().map(|d| d.iter().map(|x| x.show()).collect::<Vec<_>>()).collect::<Vec<_>>()})) }
}

fn lc_is_zero<X: yui::lc::Gen, R: yui::Ring>(z: &Lc<X, R>) -> bool where for<'x> &'x R: yui::RingOps<R> {
    z.iter().all(|(_, a)| a.is_zero())
}

pub fn run(ctx: &mut Ctx) {
    let n = ctx.by_tier(30_000u64, 1_000_000);
    macro_rules! go {
        ($t:ty, $unb:expr) => { ctx.random_cases(&<$t as Bridge>::name(), n, |c, r| case::<$t>(c, r, $unb, false)); };
        ($t:ty, $unb:expr, small) => { ctx.random_cases(&<$t as Bridge>::name(), n, |c, r| case::<$t>(c, r, $unb, true)); };
    }
    go!(BigInt, true);
    go!(i64, false);
    go!(i128, false);
    go!(Ratio<i64>, false);
    go!(Ratio<BigInt>, true);
    go!(yui::FF2, true);
    go!(FF<3>, true);
    go!(FF<5>, true);
    go!(GaussInt<i64>, false);
    go!(GaussInt<BigInt>, true);
    go!(EisenInt<i64>, false);
    go!(EisenInt<BigInt>, true);
    go!(Poly<'x', Ratio<BigInt>>, true, small);
    go!(Poly<'x', FF<3>>, true);
    let _ = (|| { let m: SpMat<i64> = SpMat::zero((0, 0)); m.shape() })();
}
