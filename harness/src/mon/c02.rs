// C02 — Khovanov homology is a link invariant with the expected mirror duality.
// Metamorphic monitor: two real computations related by a generated isotopy (braid relations,
// Markov moves, Reidemeister I, relabelling, reordering, global orientation reversal) must give the
// same bigraded table; mirroring must act as (i,j) -> (-i,-j) on the free part and (i,j) -> (1-i,-j) on
// torsion. Generator soundness: every diagram is validated and every move sequence must preserve the
// oracle's own bracket polynomial.

use num_bigint::BigInt;
use serde_json::json;
use yui::{EucRingOps, Ratio, FF, FF2};

use crate::ctx::{guarded, hash_of, Ctx, Rng};
use crate::diag::*;
use crate::khx::*;
use crate::mon::c01::pools;
use crate::oracle::link::{braid_closure, PD};

fn oracle_same_link(a: &PD, b: &PD) -> Option<bool> {
    if a.n() > 16 || b.n() > 16 { return None }
    match (a.jones(), b.jones()) { (Ok(x), Ok(y)) => Some(x == y), _ => None }
}

struct Pair { a: PD, b: PD, log: Vec<String>, origin: String, nontrivial: bool }

fn gen_pair(ctx: &Ctx, rng: &mut Rng) -> Option<Pair> {
    let maxc = ctx.by_tier(13, 18);
    if rng.chance(1, 2) {
        // braid level
        let (n, w) = if rng.chance(1, 4) {
            let i = rng.below(braid_table().len());
            load_braid(&braid_table()[i])?
        } else { random_braid(rng, 5, ctx.by_tier(9, 12)) };
        if w.len() > maxc - 3 { return None }
        let k = rng.urange(1, 8);
        let (mut n2, mut w2, mut log) = braid_moves(rng, n, &w, k, maxc);
        // one pair in five: an additional conjugation g * b * g^-1 carried out with the library's own braid algebra
        // (Braid product and Braid::inv); the closure is then again taken by the oracle
        if rng.chance(1, 5) && w2.len() + 6 <= maxc && n2 >= 2 {
            let g: Vec<i32> = (0..rng.urange(2, 3)).map(|_| { let i = rng.urange(1, n2 - 1) as i32; if rng.chance(1, 2) { i } else { -i } }).collect();
            let (gb, bb) = (crate::diag::to_braid(n2, &g), crate::diag::to_braid(n2, &w2));
            if let Ok(c) = guarded(move || { let x = &(&gb * &bb) * &gb.inv(); x.elements().iter().map(|e| if e.sign().is_positive() { e.index() as i32 } else { -(e.index() as i32) }).collect::<Vec<i32>>() }) {
                log.push(format!("conjugation by the word {:?} through Braid::inv and the braid product", g));
                w2 = c; let _ = &mut n2;
            }
        }
        let a = braid_closure(n, &w).ok()?;
        let b = braid_closure(n2, &w2).ok()?;
        let nt = log.iter().any(|s| !s.starts_with("conjugation")) && a.n() >= 3;
        Some(Pair { a, b, log, origin: format!("closure of {:?} ({n} strands) -> {:?} ({n2} strands)", w, w2), nontrivial: nt })
    } else {
        let (name, a) = pick_table(rng, 2, ctx.by_tier(10, 11));
        let k = rng.urange(1, 6);
        let (b, log, has_r) = pd_moves(rng, &a, k, true, maxc);
        Some(Pair { nontrivial: (has_r || !log.is_empty()) && a.n() >= 3, a, b, log, origin: format!("table {name}") })
    }
}

fn case<R: KhRing>(ctx: &mut Ctx, rng: &mut Rng) where for<'x> &'x R: EucRingOps<R> {
    let rname = R::rname();
    let Some(p) = gen_pair(ctx, rng) else { ctx.inconclusive("generator_gave_up"); return };
    if p.a.validate().is_err() || p.b.validate().is_err() { ctx.inconclusive("generator_invalid_diagram"); ctx.note(format!("invalid diagram from {}: {:?}", p.origin, p.log)); return }
    if oracle_same_link(&p.a, &p.b) == Some(false) && p.log.iter().any(|s| s.contains("through Braid::inv")) {
        // the only move not implemented by the generator itself: the library's braid algebra changed the link
        ctx.violation("C02/library-braid-conjugation", &format!("conjugating the braid word with the library's Braid product and Braid::inv changed the link (oracle bracket differs): {:?}", p.log), json!({"origin": p.origin, "moves": p.log}));
        return
    }
    match oracle_same_link(&p.a, &p.b) { Some(false) => { ctx.inconclusive("generator_move_changed_bracket"); ctx.note(format!("moves changed the oracle bracket: {} {:?}", p.origin, p.log)); return } _ => {} }
    let knot = p.a.components().len() == 1;
    let reduced = knot && rng.chance(1, 3);
    let nthreads = *rng.choose(&[1usize, 4, 16]);
    let (la, lb) = (to_link(&p.a), to_link(&p.b));
    let pool = &pools()[&nthreads];
    // the moved diagram is built divide-and-conquer (two halves glued by TngComplex::connect) one time in six (diagrams up to 9 crossings),
    // so that invariance is also exercised across ways of grouping the crossings
    let nb = p.b.n();
    let split_b = if nb >= 2 && nb <= 9 && rng.chance(1, 6) { Some(rng.urange(1, nb - 1)) } else { None };
    let conf = json!({"ring": rname, "origin": p.origin, "moves": p.log, "reduced": reduced, "threads": nthreads, "moved_diagram_built_in_two_halves_split_at": split_b});
    let wit = |extra: serde_json::Value| json!({"config": conf, "pd": p.a.x, "moved_pd": p.b.x, "detail": extra});
    let res = guarded(move || pool.install(move || {
        let cfg = BuildCfg::default_cfg();
        let cfg_b = BuildCfg { split: split_b, ..BuildCfg::default_cfg() };
        let ta = kh_table_pieces::<R>(&la, reduced, &cfg);
        let tb = kh_table_pieces::<R>(&lb, reduced, &cfg_b);
        let tm = kh_table_pieces::<R>(&la.mirror(), reduced, &cfg);
        (ta, tb, tm)
    }));
    let (ta, tb, tm) = match res {
        Ok(x) => x,
        Err(e) => {
            if matches!(rname, "i64" | "Ratio<i64>") && e.is_overflow() { ctx.inconclusive("overflow_machine_int"); return }
            ctx.violation(&format!("C02/{rname}/panic"), &format!("panicked: {}", e.brief()), wit(json!(null))); return
        }
    };
    if ta != tb {
        ctx.violation(&format!("C02/{rname}/not-invariant"), &format!("the bigraded table changed under isotopy moves {:?}: {:?} vs {:?}", p.log, ta, tb), wit(json!(null)));
        return
    }
    if tm != mirror_table(&ta) {
        ctx.violation(&format!("C02/{rname}/mirror"), &format!("table of the mirror {:?} is not the dual {:?} of {:?}", tm, mirror_table(&ta), ta), wit(json!(null)));
        return
    }
    let class = format!("{rname}/{}", if reduced { "reduced" } else { "unreduced" });
    ctx.ok(&class, p.nontrivial, hash_of(&(&p.a.x, &p.b.x, reduced)));
    ctx.count("moves_applied", p.log.len() as i64);
    for (k, pre) in [("moves/R1_kink", "R1"), ("moves/R2_across_face", "R2"), ("moves/R3_triangular_face", "R3"), ("moves/braid_relation_R3", "braid relation"), ("moves/markov", "Markov"), ("moves/R2_braid_insert_cancel", "insert"), ("moves/R2_braid_insert_cancel", "cancel")] {
        let c = p.log.iter().filter(|s| s.starts_with(pre)).count();
        if c > 0 { ctx.count(k, c as i64) }
    }
    if ctx.want_sample(&class) { ctx.sample(&class, json!({"config": conf, "table": tj(&ta)})) }
}

/// the PD code and the braid word shipped under the same name describe the same link up to mirror
fn table_cross_reference(ctx: &mut Ctx, idx: usize) {
    let name = &braid_table()[idx];
    let (Some(pd), Some((n, w))) = (load_pd(name), load_braid(name)) else { return };
    if pd.n() > 10 || w.len() > 13 { return }
    let Ok(bc) = braid_closure(n, &w) else { return };
    let (la, lb) = (to_link(&pd), to_link(&bc));
    let name2 = name.clone();
    match guarded(move || { let cfg = BuildCfg::default_cfg(); (kh_table_pieces::<i64>(&la, false, &cfg), kh_table_pieces::<i64>(&lb, false, &cfg)) }) {
        Ok((ta, tb)) => {
            if ta != tb && ta != mirror_table(&tb) {
                ctx.violation("C02/i64/table-vs-braid", &format!("PD code and braid word of {name2} have different Khovanov homology even up to mirror"), json!({"name": name2, "pd": pd.x, "word": w}));
            } else { ctx.ok("table-vs-braid", true, hash_of(&name2)) }
        }
        Err(e) => { if e.is_overflow() { ctx.inconclusive("overflow_machine_int") } else { ctx.violation("C02/i64/panic", &format!("panicked: {}", e.brief()), json!({"name": name2})) } }
    }
}

pub fn run(ctx: &mut Ctx) {
    let n = ctx.by_tier(1_500u64, 40_000);
    ctx.random_cases("i64", n * 2, |c, r| case::<i64>(c, r));
    ctx.random_cases("BigInt", n / 2, |c, r| case::<BigInt>(c, r));
    ctx.random_cases("Ratio<i64>", n, |c, r| case::<Ratio<i64>>(c, r));
    ctx.random_cases("FF2", n, |c, r| case::<FF2>(c, r));
    ctx.random_cases("FF<3>", n, |c, r| case::<FF<3>>(c, r));
    let step = ctx.by_tier(6, 1);
    for i in (0..braid_table().len()).step_by(step) { ctx.case("table-vs-braid", i as u64, |c, _| table_cross_reference(c, i)) }
}
