// C20 — the ykh command reports the library's result for every option combination.
// The real binary (built from /repo's tree by the driver, path in VERIF_YKH) is run as a subprocess;
// its stdout table is parsed independently (cells split on runs of >= 2 spaces) and compared cell by
// cell, in both directions, with the library called in-process with the ring implied by (-t, -c).
// Unsupported combinations / malformed input / internal failures must give a non-zero exit status,
// a message on stderr and no table on stdout.

use std::collections::BTreeMap;
use std::process::Command;

use serde_json::json;
use yui::poly::{Poly, Poly2};
use yui::{Elem, EucRing, EucRingOps, Ratio, Ring, RingOps, FF};
use yui_homology::{GridTrait, SummandTrait};
use yui_kh::kh::{KhComplex, KhHomology};
use yui_link::Link;

use crate::ctx::{guarded, hash_of, Ctx, Rng};
use crate::diag::{load_pd, to_link};
use crate::oracle::link::PD;

#[derive(Clone, Copy, PartialEq, Eq, Debug)]
enum Vars { None, H, T, HT }

/// own reading of the -c value: Some((h, t)) as field strings, None if malformed
fn split_c(c: &str) -> Option<(String, String)> {
    let ok = |s: &str| -> bool { s == "H" || s == "T" || s.parse::<i64>().is_ok() };
    let parts: Vec<&str> = c.split(',').collect();
    match parts.len() {
        1 if ok(parts[0]) => Some((parts[0].to_string(), "0".to_string())),
        2 if ok(parts[0]) && ok(parts[1]) => Some((parts[0].to_string(), parts[1].to_string())),
        _ => None,
    }
}

fn vars_of(h: &str, t: &str) -> Vars {
    let has = |v: &str| h == v || t == v;
    match (has("H"), has("T")) { (true, true) => Vars::HT, (true, false) => Vars::H, (false, true) => Vars::T, _ => Vars::None }
}

/// ring element from a field string
trait Field: Ring where for<'x> &'x Self: RingOps<Self> { fn field(s: &str) -> Self; }
macro_rules! impl_field_base { ($t:ty, $conv:expr) => { impl Field for $t { fn field(s: &str) -> Self { let i: i64 = s.parse().expect("integer field"); $conv(i) } } }; }
impl_field_base!(i64, |i: i64| i);
impl_field_base!(Ratio<i64>, |i: i64| Ratio::from(i));
impl_field_base!(FF<2>, |i: i64| FF::<2>::new(i.rem_euclid(2) as i32));
impl_field_base!(FF<3>, |i: i64| FF::<3>::new(i.rem_euclid(3) as i32));
macro_rules! impl_field_poly { ($k:ty) => {
    impl Field for Poly<'H', $k> { fn field(s: &str) -> Self { if s == "H" { Self::variable() } else { Self::from_const(<$k as Field>::field(s)) } } }
    impl Field for Poly<'T', $k> { fn field(s: &str) -> Self { if s == "T" { Self::variable() } else { Self::from_const(<$k as Field>::field(s)) } } }
    impl Field for Poly2<'H', 'T', $k> { fn field(s: &str) -> Self { if s == "H" { Self::variable(0) } else if s == "T" { Self::variable(1) } else { Self::from_const(<$k as Field>::field(s)) } } }
}; }
impl_field_poly!(i64);
impl_field_poly!(Ratio<i64>);
impl_field_poly!(FF<2>);
impl_field_poly!(FF<3>);

type Cells = BTreeMap<(i64, i64), (usize, Vec<String>)>; // (i, j) -> (rank, torsion strings); j = 0 for sequences

struct Expect { symbol: String, cells: Cells, table: bool }

fn expect_kh<R>(l: &Link, h: &str, t: &str, reduced: bool, bigraded: bool) -> Expect
where R: EucRing + Field, for<'x> &'x R: EucRingOps<R> {
    let kh = KhHomology::<R>::new(l, &R::field(h), &R::field(t), reduced);
    let mut cells = Cells::new();
    if bigraded {
        let g = kh.into_bigraded();
        for idx in g.support() { let s = &g[(idx.0, idx.1)]; if s.rank() > 0 || !s.tors().is_empty() { cells.insert((idx.0 as i64, idx.1 as i64), (s.rank(), sorted(s.tors().iter().map(|x| x.to_string()).collect()))); } }
    } else {
        for i in kh.support() { let s = &kh[i]; if s.rank() > 0 || !s.tors().is_empty() { cells.insert((i as i64, 0), (s.rank(), sorted(s.tors().iter().map(|x| x.to_string()).collect()))); } }
    }
    Expect { symbol: R::math_symbol(), cells, table: bigraded }
}

fn expect_ckh<R>(l: &Link, h: &str, t: &str, reduced: bool) -> Expect
where R: Ring + Field, for<'x> &'x R: RingOps<R> {
    let c = KhComplex::<R>::new(l, &R::field(h), &R::field(t), reduced);
    let g = c.gen_grid();
    let mut cells = Cells::new();
    for idx in g.support() { let s = &g[(idx.0, idx.1)]; if s.rank() > 0 { cells.insert((idx.0 as i64, idx.1 as i64), (s.rank(), vec![])); } }
    Expect { symbol: R::math_symbol(), cells, table: true }
}

fn sorted(mut v: Vec<String>) -> Vec<String> { v.sort(); v }

fn unsup(s: &str) -> char {
    match s { "⁰" => '0', "¹" => '1', "²" => '2', "³" => '3', "⁴" => '4', "⁵" => '5', "⁶" => '6', "⁷" => '7', "⁸" => '8', "⁹" => '9', _ => '?' }
}

/// parse one cell "Z² ⊕ (Z/2) ⊕ (Z/4)²" -> (symbol, rank, torsion)
fn parse_cell(cell: &str) -> Result<(Option<String>, usize, Vec<String>), String> {
    let mut rank = 0usize;
    let mut tors = vec![];
    let mut symbol = None;
    for part in cell.split(" ⊕ ") {
        let chars: Vec<char> = part.chars().collect();
        let mut end = chars.len();
        let mut digits = String::new();
        while end > 0 && "⁰¹²³⁴⁵⁶⁷⁸⁹".contains(chars[end - 1]) { digits.insert(0, unsup(&chars[end - 1].to_string())); end -= 1 }
        let base: String = chars[..end].iter().collect();
        if base.starts_with('(') {
            if !base.ends_with(')') {
                // the superscripts belonged to the torsion element itself, e.g. "(Q[H]/H²)": nothing to strip
                return Err(format!("unparsable summand '{part}'"))
            }
            let mult: usize = if digits.is_empty() { 1 } else { digits.parse().map_err(|_| "bad exponent")? };
            let inner = &base[1..base.len() - 1];
            let (sym, t) = inner.split_once('/').ok_or(format!("no '/' in '{part}'"))?;
            symbol.get_or_insert(sym.to_string());
            for _ in 0..mult { tors.push(t.to_string()) }
        } else {
            let mult: usize = if digits.is_empty() { 1 } else { digits.parse().map_err(|_| "bad exponent")? };
            symbol = Some(base.clone());
            rank += mult;
        }
    }
    Ok((symbol, rank, sorted(tors)))
}

struct Parsed { table: bool, cells: BTreeMap<(i64, i64), String> }

fn split2(line: &str) -> Vec<String> {
    // fields separated by runs of >= 2 spaces
    let mut out = vec![];
    let mut cur = String::new();
    let mut spaces = 0;
    for ch in line.trim().chars() {
        if ch == ' ' { spaces += 1; continue }
        if spaces >= 2 { out.push(std::mem::take(&mut cur)); } else if spaces == 1 { cur.push(' ') }
        spaces = 0;
        cur.push(ch);
    }
    if !cur.is_empty() { out.push(cur) }
    out
}

fn parse_output(out: &str) -> Result<Parsed, String> {
    let lines: Vec<&str> = out.lines().filter(|l| !l.trim().is_empty()).collect();
    if lines.is_empty() { return Err("empty output".into()) }
    let head = split2(lines[0]);
    if head.is_empty() { return Err("no header".into()) }
    let is: Vec<i64> = head[1..].iter().map(|s| s.trim().parse::<i64>().map_err(|_| format!("bad column label '{s}'"))).collect::<Result<_, _>>()?;
    let mut cells = BTreeMap::new();
    if head[0] == "j\\i" {
        for l in &lines[1..] {
            let f = split2(l);
            if f.len() != is.len() + 1 { return Err(format!("row '{l}' has {} fields, header has {}", f.len(), is.len() + 1)) }
            let j: i64 = f[0].trim().parse().map_err(|_| format!("bad row label '{}'", f[0]))?;
            for (k, c) in f[1..].iter().enumerate() { if c != "." { cells.insert((is[k], j), c.clone()); } }
        }
        Ok(Parsed { table: true, cells })
    } else if head[0] == "i" {
        if lines.len() != 2 { return Err("sequence output must have two lines".into()) }
        let f = split2(lines[1]);
        if f.len() != is.len() { return Err(format!("sequence row has {} fields for {} degrees", f.len(), is.len())) }
        for (k, c) in f.iter().enumerate() { if c != "0" { cells.insert((is[k], 0), c.clone()); } }
        Ok(Parsed { table: false, cells })
    } else { Err(format!("unknown header '{}'", head[0])) }
}

const LINKS: [(&str, &str); 13] = [
    ("3_1", "name"), ("4_1", "name"), ("5_2", "name"), ("L2a1", "name"), ("L6n1", "name"), ("6_2", "name"),
    ("[[1,4,2,5],[3,6,4,1],[5,2,6,3]]", "pd"), ("[[4,1,3,2],[2,3,1,4]]", "pd"), ("[]", "pd"), ("[[0,0,1,1]]", "pd"),
    ("[[1,5,2,4],[3,1,4,6],[5,3,6,2]]", "pd"), ("[[6,1,7,2],[12,8,9,7],[4,12,1,11],[5,11,6,10],[3,8,4,5],[9,3,10,2]]", "pd"), ("7_7", "name"),
];
const BAD_LINKS: [&str; 6] = ["foo", "%%%", "[[1,2,3]]", "[[1,2,3,4]]", "3_1x", "[[1,2],[3,4]"];
const CVALS: [&str; 24] = ["", "0", "1", "2", "-3", "0,1", "1,1", "2,0", "H", "0,T", "H,T", "T", "H,0", "foo", "1,", "2,3,4", "0,0,junk", "H,T,7", ",1",
    // signed entries inside a pair
    "1,-1", "-1,1", "2,-3", "0,-1", "-2,0"];
const CABSENT: &str = "<absent>";

fn link_of(s: &str) -> Option<Link> {
    if s.starts_with('[') {
        let v: Vec<[usize; 4]> = serde_json::from_str(s).ok()?;
        Some(to_link(&PD::new(v)))
    } else { load_pd(s).map(|p| to_link(&p)) }
}

/// seconds one ykh invocation may take; an overrun is inconclusive (wall-clock is never a verdict)
const YKH_TIMEOUT_S: u64 = 120;

fn run_ykh(args: &[String]) -> Result<(i32, String, String), String> {
    use std::io::Read;
    use std::process::Stdio;
    let bin = std::env::var("VERIF_YKH").map_err(|_| "VERIF_YKH not set")?;
    let mut child = Command::new(bin).args(args).env("RUST_BACKTRACE", "0").env_remove("RUST_LOG")
        .stdin(Stdio::null()).stdout(Stdio::piped()).stderr(Stdio::piped()).spawn().map_err(|e| format!("cannot run ykh: {e}"))?;
    let (mut so, mut se) = (child.stdout.take().ok_or("no stdout")?, child.stderr.take().ok_or("no stderr")?);
    let t1 = std::thread::spawn(move || { let mut b = vec![]; let _ = so.read_to_end(&mut b); b });
    let t2 = std::thread::spawn(move || { let mut b = vec![]; let _ = se.read_to_end(&mut b); b });
    let t0 = std::time::Instant::now();
    let status = crate::ctx::external(|| loop {
        match child.try_wait() {
            Ok(Some(st)) => break Ok(st),
            Ok(None) => {
                if t0.elapsed().as_secs() >= YKH_TIMEOUT_S { let _ = child.kill(); let _ = child.wait(); break Err("timeout: ykh did not finish".to_string()) }
                std::thread::sleep(std::time::Duration::from_millis(if t0.elapsed().as_millis() < 200 { 1 } else { 10 }));
            }
            Err(e) => break Err(format!("cannot wait for ykh: {e}")),
        }
    });
    let (o, e) = (t1.join().unwrap_or_default(), t2.join().unwrap_or_default());
    let st = status?;
    Ok((st.code().unwrap_or(-1), String::from_utf8_lossy(&o).to_string(), String::from_utf8_lossy(&e).to_string()))
}

fn case(ctx: &mut Ctx, rng: &mut Rng, exhaustive_idx: Option<usize>) {
    // choose the combination
    let cmd = if rng.chance(3, 5) { "kh" } else { "ckh" };
    let ty = *rng.choose(&["Z", "Q", "F2", "F3"]);
    let bad_link = rng.chance(1, 10);
    let link = if bad_link { BAD_LINKS[rng.below(BAD_LINKS.len())] } else { LINKS[match exhaustive_idx { Some(i) => i % LINKS.len(), None => rng.below(LINKS.len()) }].0 };
    let cval = if rng.chance(1, 8) { CABSENT } else { CVALS[rng.below(CVALS.len())] };
    let (mirror, reduced) = (rng.chance(1, 3), rng.chance(1, 3));
    let ty_given = !rng.chance(1, 6) || ty != "Z";
    let mut args: Vec<String> = vec![cmd.into(), link.into()];
    if ty_given { args.push("-t".into()); args.push(ty.into()) }
    // a value starting with '-' must be attached with '=' (clap would read `-c -3` as an unknown flag)
    if cval != CABSENT { if cval.starts_with('-') { args.push(format!("-c={cval}")) } else { args.push("-c".into()); args.push(cval.into()) } }
    if mirror { args.push("-m".into()) }
    if reduced { args.push("-r".into()) }
    let conf = json!({"argv": args});

    // what must happen, by the statement
    let c_eff = if cval == CABSENT { "0" } else { cval };
    let parsed_c = split_c(c_eff);
    let lk = if bad_link { None } else { link_of(link) };
    let mut supported = parsed_c.is_some() && lk.is_some();
    let mut vars = Vars::None;
    let (mut hs, mut ts) = (String::new(), String::new());
    if let Some((h, t)) = &parsed_c {
        vars = vars_of(h, t);
        hs = h.clone(); ts = t.clone();
        if cmd == "kh" && (vars == Vars::HT || (ty == "Z" && vars != Vars::None)) { supported = false } // not a PID
        // reduced theory needs t = 0 IN THE COEFFICIENT RING (e.g. t = -3 is zero over F3, t = 2 is zero over F2)
        let t_is_zero = match t.parse::<i64>() { Ok(v) => match ty { "F2" => v % 2 == 0, "F3" => v % 3 == 0, _ => v == 0 }, Err(_) => false };
        if reduced && !t_is_zero { supported = false }
        // the link must not be empty for the reduced theory
        if reduced && link == "[]" { supported = false }
    }

    let (rc, stdout, stderr) = match run_ykh(&args) { Ok(x) => x, Err(e) => { ctx.inconclusive(if e.starts_with("timeout") { "ykh_timeout" } else { "cannot_run_ykh" }); ctx.note(format!("{e}: {:?}", args)); return } };
    let wit = |extra: serde_json::Value| json!({"config": conf, "exit": rc, "stdout": stdout.chars().take(1500).collect::<String>(), "stderr": stderr.chars().take(600).collect::<String>(), "detail": extra});
    let looks_like_table = stdout.lines().any(|l| { let t = l.trim_start(); t.starts_with("j\\i") || t.starts_with("i ") });

    if !supported {
        let class = if lk.is_none() { "error/link" } else if parsed_c.is_none() { "error/c-value" } else { "error/unsupported" };
        if rc == 0 || looks_like_table {
            ctx.violation(&format!("C20/{class}-reported-as-table"), &format!("`ykh {}` is malformed / unsupported but exited with status {rc} and {}", args.join(" "), if looks_like_table { "printed a table" } else { "no error status" }), wit(json!(null)));
            return
        }
        if stderr.trim().is_empty() { ctx.violation(&format!("C20/{class}-no-message"), &format!("`ykh {}` failed with status {rc} but printed no message", args.join(" ")), wit(json!(null))); return }
        ctx.ok(class, true, hash_of(&args));
        if ctx.want_sample(class) { ctx.sample(class, json!({"argv": args, "exit": rc, "stderr": stderr.trim().chars().take(160).collect::<String>()})) }
        return
    }

    // supported: compute the library's answer in-process with the ring implied by (-t, -c)
    let l0 = lk.unwrap();
    let l = if mirror { l0.mirror() } else { l0 };
    // either presentation (bigraded table / sequence by homological degree) lists the groups; the expectation is
    // computed in the presentation that was printed
    let pre = parse_output(&stdout);
    let bigraded = match &pre { Ok(p) => p.table, Err(_) => (hs == "0" && ts == "0") || c_eff == "H" || c_eff == "0,T" };
    let (h2, t2, l2) = (hs.clone(), ts.clone(), l.clone());
    let is_kh = cmd == "kh";
    let exp = guarded(move || -> Expect {
        macro_rules! go { ($r:ty) => { if is_kh { unreachable!() } else { expect_ckh::<$r>(&l2, &h2, &t2, reduced) } }; }
        macro_rules! go_euc { ($r:ty) => { if is_kh { expect_kh::<$r>(&l2, &h2, &t2, reduced, bigraded) } else { expect_ckh::<$r>(&l2, &h2, &t2, reduced) } }; }
        match (ty, vars) {
            ("Z", Vars::None) => go_euc!(i64), ("Q", Vars::None) => go_euc!(Ratio<i64>), ("F2", Vars::None) => go_euc!(FF<2>), ("F3", Vars::None) => go_euc!(FF<3>),
            ("Q", Vars::H) => go_euc!(Poly<'H', Ratio<i64>>), ("Q", Vars::T) => go_euc!(Poly<'T', Ratio<i64>>),
            ("F2", Vars::H) => go_euc!(Poly<'H', FF<2>>), ("F2", Vars::T) => go_euc!(Poly<'T', FF<2>>),
            ("F3", Vars::H) => go_euc!(Poly<'H', FF<3>>), ("F3", Vars::T) => go_euc!(Poly<'T', FF<3>>),
            ("Z", Vars::H) => go!(Poly<'H', i64>), ("Z", Vars::T) => go!(Poly<'T', i64>), ("Z", Vars::HT) => go!(Poly2<'H', 'T', i64>),
            ("Q", Vars::HT) => go!(Poly2<'H', 'T', Ratio<i64>>), ("F2", Vars::HT) => go!(Poly2<'H', 'T', FF<2>>), (_, _) => go!(Poly2<'H', 'T', FF<3>>),
        }
    });
    let exp = match exp {
        Ok(e) => e,
        Err(p) => {
            // the library itself fails on this input: the command must report an error, not a table
            if rc == 0 || looks_like_table { ctx.violation("C20/internal-failure-reported-as-table", &format!("the library panics for `ykh {}` ({}), but the command exited with {rc}", args.join(" "), p.brief()), wit(json!(null))); }
            else { ctx.ok("error/internal", true, hash_of(&args)) }
            return
        }
    };
    if rc != 0 { ctx.violation("C20/supported-combination-failed", &format!("`ykh {}` is a supported combination but exited with status {rc}: {}", args.join(" "), stderr.trim().chars().take(300).collect::<String>()), wit(json!(null))); return }
    let parsed = match pre { Ok(p) => p, Err(e) => { ctx.violation("C20/unparsable-table", &format!("`ykh {}`: output is not a table ({e})", args.join(" ")), wit(json!(null))); return } };
    if parsed.table != exp.table { ctx.violation("C20/table-kind", &format!("`ykh {}`: printed a sequence where only a bigraded generator table makes sense", args.join(" ")), wit(json!(null))); return }
    // decode every printed cell
    let mut got = Cells::new();
    for (k, c) in &parsed.cells {
        match parse_cell(c) {
            Ok((sym, r, t)) => {
                if let Some(s) = sym { if s != exp.symbol { ctx.violation("C20/ring-symbol", &format!("`ykh {}`: cell {:?} is over '{s}', the parameters imply '{}'", args.join(" "), k, exp.symbol), wit(json!(null))); return } }
                got.insert(*k, (r, t));
            }
            Err(e) => { ctx.violation("C20/unparsable-cell", &format!("`ykh {}`: cell {:?} = '{c}': {e}", args.join(" "), k), wit(json!(null))); return }
        }
    }
    let deterministic = is_kh || (hs == "0" && ts == "0");
    if deterministic {
        if got != exp.cells {
            let diff: Vec<String> = got.keys().chain(exp.cells.keys()).collect::<std::collections::BTreeSet<_>>().into_iter().filter(|k| got.get(k) != exp.cells.get(k))
                .map(|k| format!("{:?}: printed {:?}, library {:?}", k, got.get(k), exp.cells.get(k))).collect();
            ctx.violation(&format!("C20/{cmd}-table-differs"), &format!("`ykh {}`: {}", args.join(" "), diff.join("; ")), wit(json!(null)));
            return
        }
    } else {
        // ckh with a deformation: the simplified complex is not canonical (it depends on hash order), so only
        // quantities every homotopy-equivalent simplification shares are compared: the graded Euler
        // characteristic for graded parameters, the total Euler characteristic otherwise
        let graded = hs.parse::<i64>().map(|x| x == 0).unwrap_or(true) && ts.parse::<i64>().map(|x| x == 0).unwrap_or(true);
        let chi = |c: &Cells| -> BTreeMap<i64, i64> { let mut m = BTreeMap::new(); for (&(i, j), (r, _)) in c { *m.entry(if graded { j } else { 0 }).or_insert(0) += if i.rem_euclid(2) == 0 { *r as i64 } else { -(*r as i64) } } m.retain(|_, v| *v != 0); m };
        if chi(&got) != chi(&exp.cells) {
            ctx.violation("C20/ckh-euler-characteristic", &format!("`ykh {}`: the printed generator table has Euler characteristic {:?}, the library's complex {:?}", args.join(" "), chi(&got), chi(&exp.cells)), wit(json!(null)));
            return
        }
    }
    let class = format!("{cmd}/{}", if deterministic { "cell-by-cell" } else { "euler-characteristic" });
    let nondefault = cval != CABSENT && cval != "0" || mirror || reduced || ty != "Z";
    ctx.ok(&class, nondefault, hash_of(&args));
    ctx.count("cells_compared", got.len() as i64);
    if ctx.want_sample(&class) { ctx.sample(&class, json!({"argv": args, "cells": got.len()})) }
}

pub fn run(ctx: &mut Ctx) {
    let n = ctx.by_tier(18_000u64, 400_000);
    ctx.random_cases("combo", n, |c, r| case(c, r, None));
    let _ = <i64 as Elem>::math_symbol;
}
