// C04 — the graded Euler characteristic of Kh is the Jones polynomial.
// Oracle: own Kauffman state sum on the raw PD code (BigInt coefficients).

use num_bigint::BigInt;
use num_traits::Zero;
use serde_json::json;
use yui::poly::Mono;
use yui_link::util::jones_polynomial;
use yui_link::Link;

use crate::ctx::{guarded, hash_of, Ctx, Rng};
use crate::diag::*;
use crate::khx::*;
use crate::oracle::link::{braid_closure, laurent_add, laurent_invert, Laurent, PD};

fn lib_jones(l: &Link) -> Laurent {
    let p = jones_polynomial(l);
    let mut out = Laurent::new();
    for (x, c) in p.iter() { laurent_add(&mut out, x.deg() as i64, BigInt::from(*c)) }
    out
}

fn show(l: &Laurent) -> String {
    if l.is_empty() { return "0".into() }
    l.iter().map(|(e, c)| format!("{c}q^{e}")).collect::<Vec<_>>().join(" + ")
}

fn euler_char(t: &Table) -> Laurent {
    let mut out = Laurent::new();
    for (&(i, j), (r, _)) in t { if *r > 0 { laurent_add(&mut out, j, if i.rem_euclid(2) == 0 { BigInt::from(*r) } else { -BigInt::from(*r) }) } }
    out
}

fn one_diagram(ctx: &mut Ctx, rng: &mut Rng, pd: &PD, origin: &str, with_kh: bool) -> Option<Laurent> {
    if let Err(e) = pd.validate() { ctx.inconclusive("generator_invalid_diagram"); ctx.note(format!("invalid diagram ({origin}): {e}")); return None }
    let nfree = pd.n_free();
    let allowed: Vec<Laurent> = (0..(1u64 << nfree.min(4))).filter_map(|c| pd.jones_with(c).ok()).collect();
    if allowed.is_empty() { ctx.inconclusive("oracle_budget"); return None }
    let wit = |extra: serde_json::Value| json!({"origin": origin, "pd": pd.x, "switched": pd.neg, "detail": extra});
    let l = to_link(pd);
    let l2 = l.clone();
    let kh = with_kh && pd.n() <= 10;
    let res = guarded(move || {
        let j = lib_jones(&l2);
        let m = lib_jones(&l2.mirror());
        let chi = if kh { Some(euler_char(&kh_table_pieces::<i64>(&l2, false, &BuildCfg::default_cfg()))) } else { None };
        (j, m, chi)
    });
    let (j, m, chi) = match res {
        Ok(x) => x,
        Err(p) => {
            if p.is_overflow() { ctx.inconclusive("overflow_machine_int"); return None }
            ctx.violation("C04/panic", &format!("Jones / Khovanov computation panicked: {}", p.brief()), wit(json!(null))); return None
        }
    };
    if !allowed.contains(&j) {
        ctx.violation("C04/jones-vs-state-sum", &format!("jones_polynomial = {} but the Kauffman state sum gives {}", show(&j), show(&allowed[0])), wit(json!(null)));
        return None
    }
    if nfree == 0 && m != laurent_invert(&j) {
        ctx.violation("C04/mirror", &format!("Jones of the mirror {} is not J(q^-1) = {}", show(&m), show(&laurent_invert(&j))), wit(json!(null)));
        return None
    }
    if let Some(chi) = chi {
        if chi != j {
            ctx.violation("C04/euler-characteristic", &format!("sum (-1)^i q^j rank Kh^(i,j) = {} but jones_polynomial = {}", show(&chi), show(&j)), wit(json!(null)));
            return None
        }
        ctx.count("euler_characteristic_checks", 1);
    }
    // orientation-preserving smoothing of one crossing: a diagram with history
    if pd.n() >= 2 && nfree == 0 && rng.chance(1, 2) {
        let k = rng.below(pd.n());
        if let Some((sm, bit)) = pd.smooth_oriented(k) {
            if sm.validate().is_ok() && sm.n_free() == 0 {
                if let Ok(exp) = sm.jones() {
                    let l3 = l.clone();
                    match guarded(move || lib_jones(&l3.resolved_at(k, yui::bitseq::Bit::from(bit)))) {
                        Ok(js) => if js != exp {
                            ctx.violation("C04/jones-after-smoothing", &format!("after the oriented smoothing of crossing {k}: jones_polynomial = {}, state sum of the smoothed diagram = {}", show(&js), show(&exp)), wit(json!({"smoothed": sm.x})));
                            return None
                        } else { ctx.count("smoothed_diagram_checks", 1) },
                        Err(p) => { ctx.violation("C04/panic", &format!("jones_polynomial on a partially resolved diagram panicked: {}", p.brief()), wit(json!(null))); return None }
                    }
                }
            }
        }
    }
    Some(j)
}

fn diagram_case(ctx: &mut Ctx, rng: &mut Rng) {
    let maxc = ctx.by_tier(11, 13);
    let (name, base) = pick_table(rng, 2, maxc.min(11));
    let mut pd = base;
    let mut origin = format!("table {name}");
    for _ in 0..rng.below(3) {
        match rng.below(6) {
            0 => { if pd.n() < maxc { let es = pd.edges(); let e = *rng.choose(&es); if let Ok(p) = pd.r1(e, rng.below(4)) { pd = p; origin += " +kink" } } }
            1 => { if pd.n() + 2 <= maxc { let es = pd.edges(); let e = *rng.choose(&es); if let Ok(p) = pd.ring_over(e) { pd = p; origin += " +ring-over" } } }
            2 => { let (n2, o) = pick_table(rng, 2, 4); if pd.n() + o.n() <= maxc { pd = pd.disjoint_union(&o); origin += &format!(" ⊔ {n2}") } }
            3 => { let k = rng.below(pd.n()); pd = pd.switch_crossing(k); origin += &format!(" switch{k}") }
            4 => { let (n2, o) = pick_table(rng, 3, 4); if pd.n() + o.n() <= maxc { let (e, f) = (*rng.choose(&pd.edges()), *rng.choose(&o.edges())); if let Ok(p) = pd.connected_sum(e, &o, f) { pd = p; origin += &format!(" # {n2}") } } }
            _ => { pd = pd.mirror_flags(); origin += " mirror" }
        }
    }
    let Some(j) = one_diagram(ctx, rng, &pd, &origin, true) else { return };
    // invariance under PD-level isotopy moves
    if pd.n_free() == 0 {
        let nm = rng.urange(1, 4);
        let (pd2, log, _) = pd_moves(rng, &pd, nm, true, maxc + 2);
        if pd2.validate().is_err() { ctx.inconclusive("generator_invalid_diagram"); return }
        // generator soundness: the oracle's own polynomial must be invariant
        match (pd.jones(), pd2.jones()) { (Ok(a), Ok(b)) if a == b => {}, _ => { ctx.inconclusive("generator_move_changed_bracket"); ctx.note(format!("move sequence changed the oracle bracket: {:?}", log)); return } }
        let l2 = to_link(&pd2);
        match guarded(move || lib_jones(&l2)) {
            Ok(j2) => if j2 != j {
                ctx.violation("C04/not-invariant", &format!("jones_polynomial changed from {} to {} under {:?}", show(&j), show(&j2), log), json!({"origin": origin, "pd": pd.x, "switched": pd.neg, "moved": pd2.x, "moves": log}));
                return
            },
            Err(p) => { if p.is_overflow() { ctx.inconclusive("overflow_machine_int") } else { ctx.violation("C04/panic", &format!("panicked: {}", p.brief()), json!({"pd": pd2.x})) } return }
        }
    }
    let class = if pd.n_free() > 0 { "diagram/over-only" } else { "diagram" };
    ctx.ok(class, pd.n() >= 3 || pd.components().len() >= 2, hash_of(&(&pd.x, &pd.neg)));
    if ctx.want_sample(class) { ctx.sample(class, json!({"origin": origin, "pd": pd.x, "jones": show(&j)})) }
}

fn braid_case(ctx: &mut Ctx, rng: &mut Rng) {
    let maxl = ctx.by_tier(10, 12);
    let (n, w) = random_braid(rng, 5, maxl);
    let Ok(pd) = braid_closure(n, &w) else { ctx.inconclusive("generator_free_loop"); return };
    let origin = format!("closure of {:?} on {n} strands", w);
    let Some(j) = one_diagram(ctx, rng, &pd, &origin, pd.n() <= 9) else { return };
    let nm = rng.urange(1, 6);
    let (n2, w2, log) = braid_moves(rng, n, &w, nm, maxl + 3);
    let w3 = w2.clone();
    match guarded(move || lib_jones(&to_braid(n2, &w3).closure())) {
        Ok(j2) => {
            // generator soundness through the oracle
            let ok = braid_closure(n2, &w2).ok().and_then(|p| p.jones().ok()).map(|x| Some(x) == pd.jones().ok()).unwrap_or(false);
            if !ok { ctx.inconclusive("generator_move_changed_bracket"); ctx.note(format!("braid moves changed the oracle polynomial: {:?} -> {:?} via {:?}", w, w2, log)); return }
            if j2 != j {
                ctx.violation("C04/not-invariant", &format!("jones_polynomial of the closure changed from {} to {} under braid/Markov moves", show(&j), show(&j2)), json!({"word": w, "strands": n, "moved_word": w2, "moved_strands": n2, "moves": log}));
                return
            }
        }
        Err(p) => { if p.is_overflow() { ctx.inconclusive("overflow_machine_int") } else { ctx.violation("C04/panic", &format!("panicked: {}", p.brief()), json!({"word": w2})) } return }
    }
    ctx.ok("braid-closure", w.len() >= 3, hash_of(&(n, &w, &w2)));
    if ctx.want_sample("braid-closure") { ctx.sample("braid-closure", json!({"word": w, "moved_word": w2, "moves": log, "jones": show(&j)})) }
    let _ = BigInt::zero();
}

pub fn run(ctx: &mut Ctx) {
    let n = ctx.by_tier(6_000u64, 100_000);
    ctx.random_cases("diagram", n, |c, r| diagram_case(c, r));
    ctx.random_cases("braid", n, |c, r| braid_case(c, r));
}
