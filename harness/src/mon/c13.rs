// C13 — sparse and dense matrix containers implement ordinary matrix algebra.
// Reference model: dense OMat over the oracle's number types, updated by the definition of each
// operation. Random programs over pools of sparse matrices / vectors / dense matrices; after every
// operation all entries are compared. Composed transforms (Trans) are compared with the product of
// their factors before and after reduce().

use serde_json::json;
use sprs::PermOwned;
use yui::{Ratio, Ring, RingOps, FF};
use yui_matrix::dense::Mat;
use yui_matrix::sparse::{SpMat, SpVec, Trans};
use yui_matrix::MatTrait;

use crate::bridge::{Bridge, Mag};
use crate::ctx::{guarded, hash_of, Ctx, Rng};
use crate::matx::*;
use crate::oracle::linalg::OMat;
use crate::oracle::num::*;

fn dim(rng: &mut Rng) -> usize { match rng.below(8) { 0 => 0, 1 => 1, _ => rng.urange(1, 7) } }

fn fresh<T>(rng: &mut Rng, m: usize, n: usize) -> (OMat<T::O>, Vec<(usize, usize)>) where T: Bridge {
    let dens = *rng.choose(&[0usize, 20, 50, 100]);
    let o = rand_omat::<T>(rng, m, n, dens, Mag::Small);
    let zeros = if rng.chance(1, 2) && m > 0 && n > 0 { (0..rng.urange(1, 4)).map(|_| (rng.below(m), rng.below(n))).collect() } else { vec![] };
    (o, zeros)
}

fn omat_vec<O: ORing>(v: &[O]) -> OMat<O> { OMat { m: v.len(), n: 1, d: v.to_vec() } }

fn program<T>(ctx: &mut Ctx, rng: &mut Rng, unbounded: bool)
where T: Ring + Bridge, for<'x> &'x T: RingOps<T>, T::O: OEuc {
    let tname = T::name();
    let nops = rng.urange(5, 40);
    let mut pool: Vec<(SpMat<T>, OMat<T::O>)> = vec![];
    let mut hist: Vec<String> = vec![];
    let mut touched_zero = false;
    let mut zero_dim = false;
    macro_rules! bail { ($k:expr, $msg:expr) => {{ ctx.violation(&format!("C13/{tname}/{}", $k), &$msg, json!({"type": tname, "history": hist})); return }}; }
    // seed pool
    for _ in 0..3 {
        let (m, n) = (dim(rng), dim(rng));
        let (o, z) = fresh::<T>(rng, m, n);
        if !z.is_empty() { touched_zero = true }
        let Some(a) = o_to_sp_with_stored_zeros::<T>(&o, &z) else { ctx.inconclusive("generator_unrepresentable"); return };
        hist.push(format!("m{} = {} (+{} stored zeros)", pool.len(), o.show(), z.len()));
        pool.push((a, o));
    }
    for _ in 0..nops {
        let i = rng.below(pool.len());
        let (a, ao) = pool[i].clone();
        let (m, n) = (ao.m, ao.n);
        if m == 0 || n == 0 { zero_dim = true }
        let op = rng.below(27);
        let res: Result<Option<(SpMat<T>, OMat<T::O>)>, crate::ctx::PanicRec> = match op {
            0 => {
                // construction from triplets with duplicates and explicit zeros
                let (m2, n2) = (dim(rng), dim(rng));
                let mut o = OMat::<T::O>::zero(m2, n2);
                let mut e: Vec<(usize, usize, T::O)> = vec![];
                if m2 > 0 && n2 > 0 { for _ in 0..rng.below(12) { let (r, c) = (rng.below(m2), rng.below(n2)); let v = if rng.chance(1, 5) { T::O::o0() } else { T::gen(rng, Mag::Small) }; o.set(r, c, o.at(r, c).add(&v)); e.push((r, c, v)) } }
                hist.push(format!("m{} = from_entries({m2}x{n2}, {} triplets)", pool.len(), e.len()));
                let el: Option<Vec<(usize, usize, T)>> = e.iter().map(|(r, c, v)| T::try_from_o(v).map(|x| (*r, *c, x))).collect();
                match el { Some(el) => guarded(|| Some((SpMat::from_entries((m2, n2), el), o))), None => Ok(None) }
            }
            1 => {
                hist.push(format!("m{} = from_dense_data(m{i})", pool.len()));
                let d: Option<Vec<T>> = ao.d.iter().map(|x| T::try_from_o(x)).collect();
                match d { Some(d) => guarded(|| Some((SpMat::from_dense_data((m, n), d), ao.clone()))), None => Ok(None) }
            }
            2 => {
                hist.push(format!("m{} = from_col_vecs(cols of m{i})", pool.len()));
                guarded(|| Some((SpMat::from_col_vecs(m, (0..n).map(|j| a.col_vec(j))), ao.clone())))
            }
            3 | 4 | 5 => {
                // binary op with a partner of the right shape (fresh if none)
                let want = if op == 5 { (n, dim(rng)) } else { (m, n) };
                let j = (0..pool.len()).find(|&j| (pool[j].1.m, pool[j].1.n) == want);
                let (b, bo) = match j { Some(j) if rng.chance(2, 3) => pool[j].clone(), _ => { let (o, z) = fresh::<T>(rng, want.0, want.1); match o_to_sp_with_stored_zeros::<T>(&o, &z) { Some(x) => (x, o), None => { ctx.inconclusive("generator_unrepresentable"); return } } } };
                let form = rng.below(3);
                hist.push(format!("m{} = m{i} {} {} [form {form}]", pool.len(), ["+", "-", "*"][op - 3], bo.show()));
                let mo = match op { 3 => ao.add(&bo), 4 => ao.sub(&bo), _ => ao.mul(&bo) };
                if op == 4 && a.nnz() > 0 { touched_zero = true }
                guarded(|| Some((match (op, form) {
                    (3, 0) => &a + &b, (3, 1) => a.clone() + b.clone(), (3, _) => a.clone() + &b,
                    (4, 0) => &a - &b, (4, 1) => a.clone() - b.clone(), (4, _) => &a - b.clone(),
                    (_, 0) => &a * &b, (_, 1) => a.clone() * b.clone(), (_, _) => a.clone() * &b,
                }, mo)))
            }
            6 => { hist.push(format!("m{} = -m{i}", pool.len())); guarded(|| Some((if rng.chance(1, 2) { -&a } else { -a.clone() }, ao.neg()))) }
            7 => { hist.push(format!("m{} = m{i}^T", pool.len())); guarded(|| Some((a.transpose(), ao.transpose()))) }
            8 | 9 | 10 => {
                let (p, q) = (rng.perm(m), rng.perm(n));
                let (p, q) = match op { 9 => (p, (0..n).collect()), 10 => ((0..m).collect(), q), _ => (p, q) };
                hist.push(format!("m{} = m{i}.permute({:?}, {:?}) [variant {}]", pool.len(), p, q, op - 8));
                let mut mo = OMat::<T::O>::zero(m, n);
                for r in 0..m { for c in 0..n { mo.set(p[r], q[c], ao.at(r, c).clone()) } }
                let (p2, q2) = (p.clone(), q.clone());
                guarded(move || {
                    let (pp, qq) = (PermOwned::new(p2), PermOwned::new(q2));
                    Some((match op { 9 => a.permute_rows(pp.view()), 10 => a.permute_cols(qq.view()), _ => a.permute(pp.view(), qq.view()) }, mo))
                })
            }
            11 | 12 | 13 => {
                let (r0, r1) = { let x = rng.urange(0, m); let y = rng.urange(x, m); (x, y) };
                let (c0, c1) = { let x = rng.urange(0, n); let y = rng.urange(x, n); (x, y) };
                let (r0, r1, c0, c1) = match op { 12 => (r0, r1, 0, n), 13 => (0, m, c0, c1), _ => (r0, r1, c0, c1) };
                hist.push(format!("m{} = m{i}.submat({r0}..{r1}, {c0}..{c1}) [variant {}]", pool.len(), op - 11));
                let mo = ao.submat(r0, r1, c0, c1);
                guarded(|| Some((match op { 12 => a.submat_rows(r0..r1), 13 => a.submat_cols(c0..c1), _ => a.submat(r0..r1, c0..c1) }, mo)))
            }
            14 => {
                // four-way split at an arbitrary (not necessarily square) point, each block checked, then recombined
                let (k, l) = (rng.urange(0, m), rng.urange(0, n));
                hist.push(format!("m{} = combine_blocks(m{i}.divide4(({k},{l})))", pool.len()));
                let blocks = [ao.submat(0, k, 0, l), ao.submat(0, k, l, n), ao.submat(k, m, 0, l), ao.submat(k, m, l, n)];
                let r = guarded(|| { let b = a.divide4((k, l)); let c = SpMat::combine_blocks([&b[0], &b[1], &b[2], &b[3]]); (b, c) });
                match r {
                    Ok((b, c)) => {
                        for (q, name) in ["a", "b", "c", "d"].iter().enumerate() { if sp_to_o(&b[q]) != blocks[q] { bail!("divide4", format!("block {name} of divide4(({k},{l})) is {} but the definition gives {}", sp_to_o(&b[q]).show(), blocks[q].show())) } }
                        Ok(Some((c, ao.clone())))
                    }
                    Err(e) => Err(e),
                }
            }
            15 | 16 => {
                let other = if op == 15 { (m, dim(rng)) } else { (dim(rng), n) };
                let (bo, z) = fresh::<T>(rng, other.0, other.1);
                let Some(b) = o_to_sp_with_stored_zeros::<T>(&bo, &z) else { ctx.inconclusive("generator_unrepresentable"); return };
                hist.push(format!("m{} = m{i}.{}({})", pool.len(), if op == 15 { "concat" } else { "stack" }, bo.show()));
                let mo = if op == 15 { OMat::from_fn(m, n + bo.n, |r, c| if c < n { ao.at(r, c).clone() } else { bo.at(r, c - n).clone() }) }
                         else { OMat::from_fn(m + bo.m, n, |r, c| if r < m { ao.at(r, c).clone() } else { bo.at(r - m, c).clone() }) };
                guarded(|| Some((if op == 15 { a.concat(&b) } else { a.stack(&b) }, mo)))
            }
            17 => {
                let k = dim(rng);
                let (bo, z) = fresh::<T>(rng, m, k);
                let Some(b) = o_to_sp_with_stored_zeros::<T>(&bo, &z) else { ctx.inconclusive("generator_unrepresentable"); return };
                hist.push(format!("m{} = m{i}.extend_cols({})", pool.len(), bo.show()));
                let mo = OMat::from_fn(m, n + k, |r, c| if c < n { ao.at(r, c).clone() } else { bo.at(r, c - n).clone() });
                guarded(|| { let mut x = a.clone(); x.extend_cols(b); Some((x, mo)) })
            }
            18 => {
                // through the dense container and back, with elementary operations on the dense side
                hist.push(format!("m{} = dense ops on m{i}", pool.len()));
                let mut mo = ao.clone();
                let mut script: Vec<(usize, usize, usize, T::O)> = vec![];
                if m >= 2 && n >= 2 { for _ in 0..rng.below(5) { script.push((rng.below(8), rng.below(m.min(n)), rng.below(m.min(n)), T::gen(rng, Mag::Tiny))) } }
                for (k, x, y, c) in &script { match k {
                    0 => mo.swap_rows(*x, *y), 1 => mo.swap_cols(*x, *y),
                    2 => { if x != y { mo.add_row(*x, *y, c) } }
                    3 => { if x != y { mo.add_col(*x, *y, c) } }
                    4 => { for j in 0..n { let v = mo.at(*x, j).mul(c); mo.set(*x, j, v) } }       // mul_row
                    5 => { for i in 0..m { let v = mo.at(i, *x).mul(c); mo.set(i, *x, v) } }       // mul_col
                    6 => { if x != y { // left_elementary [[c, 1], [1, 0]] on rows x, y
                        for j in 0..n { let (ri, rj) = (mo.at(*x, j).clone(), mo.at(*y, j).clone()); mo.set(*x, j, ri.mul(c).add(&rj)); mo.set(*y, j, ri) } } }
                    _ => { if x != y { // right_elementary [[c, 1], [1, 0]] on columns x, y
                        for i in 0..m { let (ci, cj) = (mo.at(i, *x).clone(), mo.at(i, *y).clone()); mo.set(i, *x, ci.mul(c).add(&cj)); mo.set(i, *y, ci) } } }
                } }
                let sc: Option<Vec<(usize, usize, usize, T)>> = script.iter().map(|(k, x, y, c)| T::try_from_o(c).map(|v| (*k, *x, *y, v))).collect();
                match sc { None => Ok(None), Some(sc) => guarded(|| {
                    let mut d: Mat<T> = a.clone().into_dense();
                    let (one, zero) = (T::one(), T::zero());
                    for (k, x, y, c) in &sc { match k {
                        0 => d.swap_rows(*x, *y), 1 => d.swap_cols(*x, *y),
                        2 => { if x != y { d.add_row_to(*x, *y, c) } } 3 => { if x != y { d.add_col_to(*x, *y, c) } }
                        4 => d.mul_row(*x, c), 5 => d.mul_col(*x, c),
                        6 => { if x != y { d.left_elementary([c, &one, &one, &zero], *x, *y) } }
                        _ => { if x != y { d.right_elementary([c, &one, &one, &zero], *x, *y) } }
                    } }
                    Some((d.into_sparse(), mo))
                }) }
            }
            19 => {
                // dense algebra: (A + A) - A, A * A^T, submat
                hist.push(format!("m{} = dense((m{i} + m{i}) - m{i}) * dense(m{i})^T", pool.len()));
                let mo = ao.mul(&ao.transpose());
                guarded(|| {
                    let d: Mat<T> = Mat::from(a.clone());
                    let mut e = d.clone(); e += &d; e -= &d;
                    let t: Mat<T> = a.transpose().into_dense();
                    Some(((&e * &t).into_sparse(), mo))
                })
            }
            20 => {
                // matrix * vector and vector algebra
                if n == 0 { Ok(None) } else {
                    let vo: Vec<T::O> = (0..n).map(|_| if rng.chance(1, 2) { T::gen(rng, Mag::Small) } else { T::O::o0() }).collect();
                    hist.push(format!("v = {:?}; check m{i} * v, stack/split/subvec/permute of v", vo.iter().map(|x| x.show()).collect::<Vec<_>>()));
                    let e: Option<Vec<(usize, T)>> = vo.iter().enumerate().map(|(k, x)| T::try_from_o(x).map(|y| (k, y))).collect();
                    let Some(e) = e else { ctx.inconclusive("generator_unrepresentable"); return };
                    let at = rng.urange(0, n);
                    let p = rng.perm(n);
                    let p2 = p.clone();
                    let r = guarded(|| {
                        let v = SpVec::from_entries(n, e); // keeps explicit zeros out? zeros are filtered by from_entries
                        let av = &a * &v;
                        let (v1, v2) = v.split(at);
                        let st = v1.stack(&v2);
                        let sub = v.subvec(at..n);
                        let pv = v.permute(PermOwned::new(p2).view());
                        let sum = &v + &v - &v;
                        // further constructors / conversions: stack_vecs, from_sorted_entries, into_vec, into_mat, extract
                        let sv = SpVec::stack_vecs([v1.clone(), v2.clone()]);
                        let fs = SpVec::from_sorted_entries(n, v.iter().map(|(k, x)| (k, x.clone())).collect::<Vec<_>>());
                        let dv: Vec<T> = v.clone().into_vec();
                        let mv = v.clone().into_mat();
                        let ex = v.extract(n, |k| (k >= at).then(|| k - at));
                        let extra_ok = spvec_to_o(&sv) == spvec_to_o(&v) && spvec_to_o(&fs) == spvec_to_o(&v)
                            && dv.iter().map(|x| x.to_o()).collect::<Vec<_>>() == spvec_to_o(&v)
                            && mv.shape() == (n, 1) && (0..n).all(|k| sp_to_o(&mv).at(k, 0) == &spvec_to_o(&v)[k])
                            && { let e = spvec_to_o(&ex); let w = spvec_to_o(&v); (0..n).all(|k| if k + at < n { e[k] == w[k + at] } else { e[k].is0() }) };
                        if !extra_ok { panic!("C13-spvec-constructors-differ") }
                        (spvec_to_o(&av), spvec_to_o(&v1), spvec_to_o(&v2), spvec_to_o(&st), spvec_to_o(&sub), spvec_to_o(&pv), spvec_to_o(&sum), v.dim())
                    });
                    match r {
                        Err(e) if e.brief().contains("C13-spvec-constructors-differ") => { bail!("spvec-constructors", "stack_vecs / from_sorted_entries / into_vec / into_mat / extract differ from the definition".to_string()) }
                        Ok((av, v1, v2, st, sub, pv, sum, d)) => {
                            let exp = ao.mul(&omat_vec(&vo)).d;
                            let mut perm = vec![T::O::o0(); n];
                            for k in 0..n { perm[p[k]] = vo[k].clone() }
                            if d != n || av != exp { bail!("mat-vec", format!("m{i} * v differs from the definition")) }
                            if v1 != vo[..at] || v2 != vo[at..] || st != vo || sub != vo[at..] { bail!("spvec-split-stack", format!("split({at}) / stack / subvec differ from the definition")) }
                            if pv != perm { bail!("spvec-permute", format!("permute({:?}) differs from the definition", p)) }
                            if sum != vo { bail!("spvec-add-sub", "v + v - v != v".to_string()) }
                            Ok(None)
                        }
                        Err(e) => Err(e),
                    }
                }
            }
            21 => {
                hist.push(format!("predicates on m{i}"));
                // SpMat::is_id is deliberately not judged: it inspects stored entries only (true for a zero matrix
                // without stored entries) and is not one of the operations the property lists
                match guarded(|| (a.is_zero(), a.iter_nz().count(), a.shape())) {
                    Ok((z, nz, sh)) => {
                        if z != ao.is_zero() || nz != ao.d.iter().filter(|x| !x.is0()).count() || sh != (m, n) { bail!("predicates", format!("is_zero/iter_nz/shape = {z}/{nz}/{:?} for {}", sh, ao.show())) }
                        Ok(None)
                    }
                    Err(e) => Err(e),
                }
            }
            22 => { hist.push(format!("m{} = id({m}) * m{i}", pool.len())); guarded(|| Some((SpMat::id(m) * &a, ao.clone()))) }
            24 | 25 => {
                // permutation matrices: row_perm(p) * a = a.permute_rows(p), a * col_perm(q) = a.permute_cols(q)
                let (p, q) = (rng.perm(m), rng.perm(n));
                hist.push(format!("m{} = {} [perm {:?}]", pool.len(), if op == 24 { format!("from_row_perm * m{i}") } else { format!("m{i} * from_col_perm") }, if op == 24 { &p } else { &q }));
                let mut mo = OMat::<T::O>::zero(m, n);
                for r in 0..m { for c in 0..n { if op == 24 { mo.set(p[r], c, ao.at(r, c).clone()) } else { mo.set(r, q[c], ao.at(r, c).clone()) } } }
                guarded(move || {
                    let (pp, qq) = (PermOwned::new(p), PermOwned::new(q));
                    Some((if op == 24 { SpMat::<T>::from_row_perm(pp.view()) * &a } else { &a * SpMat::<T>::from_col_perm(qq.view()) }, mo))
                })
            }
            26 => {
                // extract: entries moved by a partial index map (here: keep rows >= r0, transpose into an n x (m - r0) matrix)
                let r0 = rng.urange(0, m);
                hist.push(format!("m{} = m{i}.extract(({n}, {}), |i, j| (i >= {r0}).then(|| (j, i - {r0})))", pool.len(), m - r0));
                let mut mo = OMat::<T::O>::zero(n, m - r0);
                for r in r0..m { for c in 0..n { mo.set(c, r - r0, ao.at(r, c).clone()) } }
                guarded(move || Some((a.extract((n, m - r0), |i, j| (i >= r0).then(|| (j, i - r0))), mo)))
            }
            _ => { hist.push(format!("m{} = m{i} + zero", pool.len())); guarded(|| Some((&a + SpMat::zero((m, n)), ao.clone()))) }
        };
        match res {
            Ok(Some((x, xo))) => {
                let got = sp_to_o(&x);
                if x.shape() != (xo.m, xo.n) || got != xo {
                    bail!(format!("op{op}"), format!("after `{}` the matrix is {} but the definition gives {}", hist.last().unwrap(), got.show(), xo.show()));
                }
                if pool.len() < 6 { pool.push((x, xo)) } else { let k = rng.below(pool.len()); pool[k] = (x, xo) }
            }
            Ok(None) => {}
            Err(p) => {
                if !unbounded && p.is_overflow() { ctx.inconclusive("overflow_machine_int"); return }
                bail!(format!("op{op}/panic"), format!("`{}` panicked: {}", hist.last().unwrap(), p.brief()));
            }
        }
    }
    let class = format!("{tname}/program");
    ctx.ok(&class, touched_zero || zero_dim || nops >= 10, hash_of(&hist));
    if touched_zero { ctx.count("programs_touching_stored_zeros", 1) }
    if zero_dim { ctx.count("programs_with_zero_dimension", 1) }
    if ctx.want_sample(&class) { let h: Vec<&String> = hist.iter().take(10).collect(); ctx.sample(&class, json!({"ops": hist.len(), "head": h})) }
}

fn trans_history<T>(ctx: &mut Ctx, rng: &mut Rng, unbounded: bool)
where T: Ring + Bridge, for<'x> &'x T: RingOps<T>, T::O: OEuc {
    let tname = T::name();
    let n0 = rng.urange(0, 6);
    let mut hist = vec![format!("t = id({n0})")];
    let mut t: Trans<T> = Trans::id(n0);
    let mut f = OMat::<T::O>::id(n0);
    let mut b = OMat::<T::O>::id(n0);
    macro_rules! bail { ($k:expr, $msg:expr) => {{ ctx.violation(&format!("C13/{tname}/trans/{}", $k), &$msg, json!({"type": tname, "history": hist})); return }}; }
    let steps = rng.urange(2, 10);
    for _ in 0..steps {
        let cur = f.m;
        let r: Result<(), crate::ctx::PanicRec> = match rng.below(6) {
            0 | 1 => {
                let k = rng.urange(0, 6);
                let fo = rand_omat::<T>(rng, k, cur, 50, Mag::Tiny);
                let bo = rand_omat::<T>(rng, cur, k, 50, Mag::Tiny);
                let (Some(fl), Some(bl)) = (o_to_sp::<T>(&fo), o_to_sp::<T>(&bo)) else { ctx.inconclusive("generator_unrepresentable"); return };
                hist.push(format!("append(f = {}, b = {})", fo.show(), bo.show()));
                f = fo.mul(&f); b = b.mul(&bo);
                guarded(|| t.append(fl, bl))
            }
            2 => {
                let p = rng.perm(cur);
                hist.push(format!("append_perm({:?})", p));
                let mut pf = OMat::<T::O>::zero(cur, cur);
                for i in 0..cur { pf.set(p[i], i, T::O::o1()) }
                f = pf.mul(&f); b = b.mul(&pf.transpose());
                let p2 = p.clone();
                guarded(|| t.append_perm(PermOwned::new(p2).view()))
            }
            3 => {
                // merge with another short transform
                let k = rng.urange(0, 5);
                let fo = rand_omat::<T>(rng, k, cur, 60, Mag::Tiny);
                let bo = rand_omat::<T>(rng, cur, k, 60, Mag::Tiny);
                let (Some(fl), Some(bl)) = (o_to_sp::<T>(&fo), o_to_sp::<T>(&bo)) else { ctx.inconclusive("generator_unrepresentable"); return };
                hist.push(format!("merge(Trans::new(f = {}, b = {}))", fo.show(), bo.show()));
                f = fo.mul(&f); b = b.mul(&bo);
                guarded(|| { let o = Trans::new(fl, bl); t.merge(o) })
            }
            4 => { hist.push("reduce()".into()); guarded(|| t.reduce()) }
            _ => {
                // restriction to a list of target coordinates: any order, repetitions allowed
                let len = if cur == 0 { 0 } else { rng.urange(0, cur + 1) };
                let idx: Vec<usize> = if cur == 0 { vec![] } else if rng.chance(1, 3) { let mut p = rng.perm(cur); p.truncate(len.min(cur)); p } else { (0..len).map(|_| rng.below(cur)).collect() };
                hist.push(format!("t = t.sub({:?})", idx));
                let mut s = OMat::<T::O>::zero(idx.len(), cur);
                for (i, &j) in idx.iter().enumerate() { s.set(i, j, T::O::o1()) }
                f = s.mul(&f); b = b.mul(&s.transpose());
                let idx2 = idx.clone();
                guarded(|| { t = t.sub(&idx2) })
            }
        };
        if let Err(p) = r { if !unbounded && p.is_overflow() { ctx.inconclusive("overflow_machine_int"); return } bail!("panic", format!("`{}` panicked: {}", hist.last().unwrap(), p.brief())) }
        // compare after every step: matrices and the action on a vector
        let vo: Vec<T::O> = (0..f.n).map(|_| T::gen(rng, Mag::Tiny)).collect();
        let wo: Vec<T::O> = (0..f.m).map(|_| T::gen(rng, Mag::Tiny)).collect();
        let (ve, we): (Option<Vec<(usize, T)>>, Option<Vec<(usize, T)>>) = (vo.iter().enumerate().map(|(k, x)| T::try_from_o(x).map(|y| (k, y))).collect(), wo.iter().enumerate().map(|(k, x)| T::try_from_o(x).map(|y| (k, y))).collect());
        let (Some(ve), Some(we)) = (ve, we) else { ctx.inconclusive("generator_unrepresentable"); return };
        let (n, m) = (f.n, f.m);
        match guarded(|| (sp_to_o(&t.forward_mat()), sp_to_o(&t.backward_mat()), spvec_to_o(&t.forward(&SpVec::from_entries(n, ve))), spvec_to_o(&t.backward(&SpVec::from_entries(m, we))), t.src_dim(), t.tgt_dim())) {
            Ok((fm, bm, fv, bv, sd, td)) => {
                if (sd, td) != (n, m) { bail!("dims", format!("src/tgt dims {sd}/{td}, expected {n}/{m}")) }
                if fm != f { bail!("forward_mat", format!("forward_mat = {} but the product of the factors is {}", fm.show(), f.show())) }
                if bm != b { bail!("backward_mat", format!("backward_mat = {} but the product of the factors is {}", bm.show(), b.show())) }
                if fv != f.mul(&omat_vec(&vo)).d { bail!("forward", "forward(v) differs from F v".to_string()) }
                if bv != b.mul(&omat_vec(&wo)).d { bail!("backward", "backward(w) differs from B w".to_string()) }
            }
            Err(p) => { if !unbounded && p.is_overflow() { ctx.inconclusive("overflow_machine_int"); return } bail!("panic", format!("evaluation panicked after `{}`: {}", hist.last().unwrap(), p.brief())) }
        }
    }
    let class = format!("{tname}/trans");
    ctx.ok(&class, steps >= 3, hash_of(&hist));
    if ctx.want_sample(&class) { ctx.sample(&class, json!({"history": hist.iter().take(8).collect::<Vec<_>>()})) }
}

pub fn run(ctx: &mut Ctx) {
    let n = ctx.by_tier(360_000u64, 12_000_000);
    macro_rules! go { ($t:ty, $unb:expr) => {
        ctx.random_cases(&format!("{}/program", <$t as Bridge>::name()), n, |c, r| program::<$t>(c, r, $unb));
        ctx.random_cases(&format!("{}/trans", <$t as Bridge>::name()), n, |c, r| trans_history::<$t>(c, r, $unb));
    }; }
    go!(i64, false);
    go!(Ratio<i64>, false);
    go!(FF<3>, true);
}
