// C17 — bit sequences behave as sequences of at most 64 bits.
// Reference model: Vec<bool>. Random operation histories over a pool of three
// sequences; every operation is judged valid/invalid by the model first, then run
// on the library value inside a panic guard, then the complete observable state
// is compared.

use serde_json::json;
use yui::bitseq::{Bit, BitSeq};

use crate::ctx::{guarded, hash_of, Ctx, Rng};

const MAX: usize = 64;

fn to_bit(b: bool) -> Bit { if b { Bit::Bit1 } else { Bit::Bit0 } }

fn model_val(m: &[bool]) -> u64 {
    let mut v = 0u64;
    for (i, &b) in m.iter().enumerate() { if b { v |= 1u64 << i } }
    v
}

fn model_str(m: &[bool]) -> String {
    m.iter().map(|&b| if b { '1' } else { '0' }).collect()
}

fn bits_of(val: u64, len: usize) -> Vec<bool> {
    (0..len).map(|i| (val >> i) & 1 == 1).collect()
}

fn gen_len(rng: &mut Rng) -> usize {
    match rng.below(10) {
        0..=4 => *rng.choose(&[0usize, 1, 2, 31, 32, 33, 62, 63, 64, 64, 63]),
        5..=7 => rng.urange(0, 64),
        8 => rng.urange(56, 64),
        _ => rng.urange(0, 12),
    }
}

fn gen_val(rng: &mut Rng, len: usize) -> u64 {
    let mask = if len >= 64 { u64::MAX } else { (1u64 << len) - 1 };
    match rng.below(8) {
        0 => 0,
        1 => mask,
        2 => mask & 0xAAAA_AAAA_AAAA_AAAA,
        3 if len > 0 => 1u64 << (len - 1),
        _ => rng.next_u64() & mask,
    }
}

/// compare every observable of the library value with the model
fn observe(ctx: &mut Ctx, lib: &BitSeq, m: &[bool], after: &str, hist: &[String]) -> bool {
    let mut bad: Vec<String> = vec![];
    if lib.len() != m.len() { bad.push(format!("len {} != {}", lib.len(), m.len())) }
    if lib.is_empty() != m.is_empty() { bad.push("is_empty".into()) }
    if m.len() <= MAX {
        if lib.as_u64() != model_val(m) { bad.push(format!("as_u64 {:#x} != {:#x}", lib.as_u64(), model_val(m))) }
        match guarded(|| lib.weight()) {
            Ok(w) => if w != m.iter().filter(|&&b| b).count() { bad.push(format!("weight {}", w)) },
            Err(p) => bad.push(format!("weight panicked: {}", p.brief())),
        }
        match guarded(|| lib.iter().map(|b| b.is_one()).collect::<Vec<_>>()) {
            Ok(v) => if v != m { bad.push("iter".into()) },
            Err(p) => bad.push(format!("iter panicked: {}", p.brief())),
        }
        match guarded(|| lib.to_string()) {
            Ok(s) => if s != model_str(m) { bad.push(format!("display {}", s)) },
            Err(p) => bad.push(format!("display panicked: {}", p.brief())),
        }
    }
    if !bad.is_empty() {
        let l64 = if m.len() >= 63 { "/len>=63" } else { "" };
        ctx.violation(
            &format!("C17/{after}/state-differs{l64}"),
            &format!("after {after} the observable state differs from the list model: {}", bad.join("; ")),
            json!({"history": hist, "model": model_str(m), "lib_len": lib.len(), "lib_val": format!("{:#x}", lib.as_u64())}),
        );
        return false
    }
    true
}

enum Outcome<T> { Val(T), Panic(String) }

fn try_run<T>(f: impl FnOnce() -> T) -> Outcome<T> {
    match guarded(f) { Ok(t) => Outcome::Val(t), Err(p) => Outcome::Panic(p.brief()) }
}

pub fn history(ctx: &mut Ctx, rng: &mut Rng) {
    let nops = rng.urange(10, ctx.by_tier(120, 200));
    let mut lib: Vec<BitSeq> = vec![BitSeq::empty(); 3];
    let mut mdl: Vec<Vec<bool>> = vec![vec![]; 3];
    let mut hist: Vec<String> = vec![];
    let mut max_len = 0usize;
    let mut ok_all = true;
    let mut nops_done = 0u64;

    // judge one constructor-like / mutating op
    macro_rules! judge {
        ($name:expr, $valid:expr, $expect:expr, $slot:expr, $call:expr) => {{
            let name: &str = $name;
            let valid: bool = $valid;
            let out = try_run(|| $call);
            nops_done += 1;
            match (valid, out) {
                (true, Outcome::Val(v)) => {
                    let e: Vec<bool> = $expect;
                    lib[$slot] = v;
                    mdl[$slot] = e;
                    max_len = max_len.max(mdl[$slot].len());
                    if !observe(ctx, &lib[$slot], &mdl[$slot], name, &hist) { ok_all = false; }
                }
                (true, Outcome::Panic(p)) => {
                    ok_all = false;
                    let e: Vec<bool> = $expect;
                    let l64 = if e.len() >= 63 { "/len>=63" } else { "" };
                    ctx.violation(&format!("C17/{name}/rejected-valid{l64}"),
                        &format!("{name} is valid on a list of booleans (result length {}) but the library panicked: {p}", e.len()),
                        json!({"history": hist, "expected": model_str(&e)}));
                }
                (false, Outcome::Val(v)) => {
                    ok_all = false;
                    ctx.violation(&format!("C17/{name}/accepted-invalid"),
                        &format!("{name} exceeds the bounds (max length 64 / index range) but the library returned a value of length {}", v.len()),
                        json!({"history": hist, "lib_len": v.len(), "lib_val": format!("{:#x}", v.as_u64())}));
                }
                (false, Outcome::Panic(_)) => { ctx.count("rejected_invalid_ops", 1); }
            }
        }};
    }

    for _ in 0..nops {
        if !ok_all { break }
        let s = rng.below(3);
        let t = rng.below(3);
        let cur = lib[s];
        let cm = mdl[s].clone();
        let n = cm.len();
        match rng.below(22) {
            0 => {
                let len = if rng.chance(1, 12) { rng.urange(65, 70) } else { gen_len(rng) };
                let val = if len <= MAX { if rng.chance(1, 12) && len < 64 { (1u64 << len) | gen_val(rng, len) } else { gen_val(rng, len) } } else { 0 };
                hist.push(format!("s{s} = new({val:#x}, {len})"));
                let valid = len <= MAX && (len == 64 || val < (1u64 << len));
                judge!("new", valid, bits_of(val, len.min(64)), s, BitSeq::new(val, len));
            }
            1 => {
                let len = if rng.chance(1, 12) { rng.urange(65, 70) } else { gen_len(rng) };
                let val = if len <= MAX { gen_val(rng, len) } else { 0 };
                hist.push(format!("s{s} = new_rev({val:#x}, {len})"));
                let l = len.min(64);
                let e: Vec<bool> = (0..l).map(|i| (val >> (l - 1 - i)) & 1 == 1).collect();
                judge!("new_rev", len <= MAX, e.clone(), s, BitSeq::new_rev(val, len));
            }
            2 => {
                let len = if rng.chance(1, 10) { rng.urange(65, 70) } else { gen_len(rng) };
                hist.push(format!("s{s} = zeros({len})"));
                judge!("zeros", len <= MAX, vec![false; len], s, BitSeq::zeros(len));
            }
            3 => {
                let len = if rng.chance(1, 10) { rng.urange(65, 70) } else { gen_len(rng) };
                hist.push(format!("s{s} = ones({len})"));
                judge!("ones", len <= MAX, vec![true; len], s, BitSeq::ones(len));
            }
            4 => {
                let len = if rng.chance(1, 10) { rng.urange(65, 68) } else { gen_len(rng) };
                let bits: Vec<bool> = (0..len).map(|_| rng.chance(1, 2)).collect();
                hist.push(format!("s{s} = from_iter({})", model_str(&bits)));
                let b2 = bits.clone();
                judge!("from_iter", len <= MAX, bits.clone(), s, BitSeq::from_iter(b2.iter().map(|&b| to_bit(b))));
            }
            5 => {
                let len = if rng.chance(1, 10) { rng.urange(65, 68) } else { gen_len(rng) };
                let bits: Vec<bool> = (0..len).map(|_| rng.chance(1, 2)).collect();
                let mut st = model_str(&bits);
                let garbage = rng.chance(1, 8) && len > 0;
                if garbage { let k = rng.below(len); st.replace_range(k..k + 1, "x"); }
                hist.push(format!("s{s} = parse({st:?})"));
                let st2 = st.clone();
                let out = try_run(move || st2.parse::<BitSeq>());
                nops_done += 1;
                match out {
                    Outcome::Val(Ok(v)) => {
                        if garbage || len > MAX {
                            ok_all = false;
                            ctx.violation("C17/parse/accepted-invalid", "parse accepted an invalid / over-long string",
                                json!({"history": hist, "lib_len": v.len()}));
                        } else {
                            lib[s] = v; mdl[s] = bits; max_len = max_len.max(len);
                            if !observe(ctx, &lib[s], &mdl[s], "parse", &hist) { ok_all = false }
                        }
                    }
                    Outcome::Val(Err(_)) => {
                        if !garbage && len <= MAX {
                            ok_all = false;
                            ctx.violation("C17/parse/rejected-valid", "parse returned Err on a valid 0/1 string of length <= 64", json!({"history": hist}));
                        }
                    }
                    Outcome::Panic(p) => {
                        if !garbage && len <= MAX {
                            ok_all = false;
                            let l64 = if len >= 63 { "/len>=63" } else { "" };
                            ctx.violation(&format!("C17/parse/rejected-valid{l64}"), &format!("parse panicked on a valid string: {p}"), json!({"history": hist}));
                        } else { ctx.count("rejected_invalid_ops", 1); }
                    }
                }
            }
            6 | 7 => {
                let b = rng.chance(1, 2);
                let form = rng.below(3);
                hist.push(format!("s{s}.push({}) [form {form}]", b as u8));
                let mut e = cm.clone(); e.push(b);
                judge!("push", n < MAX, e.clone(), s, {
                    let mut x = cur;
                    match form { 0 => x.push(to_bit(b)), 1 => { if b { x.push_1() } else { x.push_0() } }, _ => { x += to_bit(b); } }
                    x
                });
            }
            8 | 9 => {
                let other = lib[t]; let om = mdl[t].clone();
                let form = rng.below(3);
                hist.push(format!("s{s}.append(s{t}) [form {form}]"));
                let mut e = cm.clone(); e.extend(om.iter());
                judge!("append", n + om.len() <= MAX, e.clone(), s, {
                    match form { 0 => { let mut x = cur; x.append(other); x }, 1 => { let mut x = cur; x += &other; x }, _ => cur + other }
                });
            }
            10 | 11 => {
                let i = if rng.chance(1, 8) { n + 1 + rng.below(3) } else { rng.urange(0, n) };
                let b = rng.chance(1, 2);
                let form = rng.below(2);
                hist.push(format!("s{s}.insert({i}, {}) [form {form}]", b as u8));
                let mut e = cm.clone(); if i <= n { e.insert(i, b) }
                judge!("insert", i <= n && n < MAX, e.clone(), s, { let mut x = cur; if form == 0 { x.insert(i, to_bit(b)) } else if b { x.insert_1(i) } else { x.insert_0(i) }; x });
            }
            12 | 13 => {
                let i = if n == 0 || rng.chance(1, 8) { n + rng.below(3) } else { rng.below(n) };
                hist.push(format!("s{s}.remove({i})"));
                let mut e = cm.clone(); if i < n { e.remove(i); }
                judge!("remove", i < n, e.clone(), s, { let mut x = cur; x.remove(i); x });
            }
            14 => {
                let i = if n == 0 || rng.chance(1, 8) { n + rng.below(3) } else { rng.below(n) };
                let b = rng.chance(1, 2);
                let form = rng.below(2);
                hist.push(format!("s{s}.set({i}, {}) [form {form}]", b as u8));
                let mut e = cm.clone(); if i < n { e[i] = b }
                judge!("set", i < n, e.clone(), s, { let mut x = cur; if form == 0 { x.set(i, to_bit(b)) } else if b { x.set_1(i) } else { x.set_0(i) }; x });
            }
            15 => {
                let l = if rng.chance(1, 8) { n + 1 + rng.below(3) } else { rng.urange(0, n) };
                hist.push(format!("s{t} = s{s}.sub({l})"));
                let e: Vec<bool> = cm.iter().take(l).cloned().collect();
                judge!("sub", l <= n, e.clone(), t, cur.sub(l));
            }
            16 => {
                // prefix test, in both directions, plus a guaranteed-positive instance
                let other = lib[t]; let om = mdl[t].clone();
                hist.push(format!("s{s}.is_sub(s{t})"));
                let exp = n <= om.len() && om[..n] == cm[..];
                nops_done += 1;
                match try_run(|| cur.is_sub(&other)) {
                    Outcome::Val(v) => if v != exp {
                        ok_all = false;
                        ctx.violation("C17/is_sub/wrong-result", &format!("is_sub returned {v}, the list model says {exp}"),
                            json!({"history": hist, "self": model_str(&cm), "other": model_str(&om)}));
                    },
                    Outcome::Panic(p) => {
                        ok_all = false;
                        let l64 = if n >= 63 || om.len() >= 63 { "/len>=63" } else { "" };
                        ctx.violation(&format!("C17/is_sub/rejected-valid{l64}"), &format!("is_sub panicked: {p}"),
                            json!({"history": hist, "self": model_str(&cm), "other": model_str(&om)}));
                    }
                }
            }
            17 => {
                let i = if n == 0 || rng.chance(1, 8) { n + rng.below(3) } else { rng.below(n) };
                hist.push(format!("s{s}[{i}]"));
                nops_done += 1;
                match (i < n, try_run(|| cur[i].is_one())) {
                    (true, Outcome::Val(v)) => if v != cm[i] {
                        ok_all = false;
                        ctx.violation("C17/index/wrong-result", &format!("index {i} returned {v}"), json!({"history": hist, "model": model_str(&cm)}));
                    },
                    (true, Outcome::Panic(p)) => { ok_all = false; ctx.violation("C17/index/rejected-valid", &format!("index {i} < len panicked: {p}"), json!({"history": hist})); }
                    (false, Outcome::Val(_)) => { ok_all = false; ctx.violation("C17/index/accepted-invalid", "index out of range returned a bit", json!({"history": hist})); }
                    (false, Outcome::Panic(_)) => { ctx.count("rejected_invalid_ops", 1); }
                }
            }
            18 => {
                // ordering: (len, weight, value), consistent with ==
                let other = lib[t]; let om = mdl[t].clone();
                hist.push(format!("cmp(s{s}, s{t})"));
                let key = |m: &Vec<bool>| (m.len(), m.iter().filter(|&&b| b).count(), model_val(m));
                let exp = key(&cm).cmp(&key(&om));
                nops_done += 1;
                match try_run(|| (cur.cmp(&other), other.cmp(&cur), cur == other, cur.partial_cmp(&other))) {
                    Outcome::Val((c, rc, eq, pc)) => {
                        if c != exp || rc != exp.reverse() || eq != (cm == om) || (c == std::cmp::Ordering::Equal) != eq || pc != Some(c) {
                            ok_all = false;
                            ctx.violation("C17/cmp/wrong-result", &format!("cmp gave {c:?}/{rc:?}, == gave {eq}; expected {exp:?}, {}", cm == om),
                                json!({"history": hist, "a": model_str(&cm), "b": model_str(&om)}));
                        }
                    }
                    Outcome::Panic(p) => { ok_all = false; ctx.violation("C17/cmp/rejected-valid", &format!("cmp panicked: {p}"), json!({"history": hist})); }
                }
            }
            19 => {
                // enumeration of all sequences of a small length
                let l = rng.urange(0, 11);
                hist.push(format!("generate({l})"));
                nops_done += 1;
                match try_run(|| BitSeq::generate(l).collect::<Vec<_>>()) {
                    Outcome::Val(v) => {
                        let good = v.len() == 1usize << l && v.iter().enumerate().all(|(k, b)| b.len() == l && b.as_u64() == k as u64);
                        if !good { ok_all = false; ctx.violation("C17/generate/wrong-result", "generate(l) is not the list of all 2^l sequences in value order", json!({"history": hist, "l": l})); }
                    }
                    Outcome::Panic(p) => { ok_all = false; ctx.violation("C17/generate/rejected-valid", &format!("generate({l}) panicked: {p}"), json!({"history": hist})); }
                }
            }
            20 => {
                // edit = apply a closure to a copy
                let b = rng.chance(1, 2);
                hist.push(format!("s{t} = s{s}.edit(|x| x.push({}))", b as u8));
                let mut e = cm.clone(); e.push(b);
                judge!("edit-push", n < MAX, e.clone(), t, cur.edit(|x| x.push(to_bit(b))));
            }
            _ => {
                // From<[T; N]> / From<T>
                let b = rng.chance(1, 2);
                hist.push(format!("s{s} = from([{}, 1, 0])", b as u8));
                judge!("from_array", true, vec![b, true, false], s, BitSeq::from([b as u8, 1, 0]));
            }
        }
    }

    ctx.count("operations", nops_done as i64);
    ctx.maxv("max_len_reached", max_len as i64);
    if ok_all {
        let class = if max_len >= 64 { "history/len64" } else if max_len >= 63 { "history/len63" } else { "history/short" };
        ctx.ok(class, max_len >= 63, hash_of(&hist));
        if ctx.want_sample(class) {
            let h: Vec<&String> = hist.iter().take(14).collect();
            ctx.sample(class, json!({"first_ops": h, "ops": hist.len(), "max_len": max_len}));
        }
    }
}

/// deterministic boundary sweep: every length 0..=64 with the main operations
fn boundary(ctx: &mut Ctx, rng: &mut Rng, len: usize) {
    let mut hist = vec![format!("boundary sweep at length {len}")];
    let bits: Vec<bool> = (0..len).map(|_| rng.chance(1, 2)).collect();
    // the Bit type and the integer / array constructors: a sequence built from 0/1 integers is the same sequence
    {
        let b2 = bits.clone();
        let r = try_run(move || {
            let conv_ok = Bit::from(true) == Bit::Bit1 && Bit::from(false) == Bit::Bit0 && Bit::from(1u8) == Bit::Bit1 && Bit::from(0i32) == Bit::Bit0 && Bit::from(1usize) == Bit::Bit1 && Bit::from(0u64) == Bit::Bit0
                && Bit::Bit0.is_zero() && !Bit::Bit0.is_one() && Bit::Bit1.is_one() && !Bit::Bit1.is_zero() && Bit::Bit0.as_u64() == 0 && Bit::Bit1.as_u64() == 1;
            let from_u8 = BitSeq::from_iter(b2.iter().map(|&b| b as u8));
            let from_i64 = BitSeq::from_iter(b2.iter().map(|&b| b as i64));
            let from_bool = BitSeq::from_iter(b2.iter().cloned());
            let single = (BitSeq::from(true), BitSeq::from(0u8), BitSeq::from([1u8, 0, 1]));
            (conv_ok, from_u8 == from_bool && from_i64 == from_bool, single.0.len() == 1 && single.0.as_u64() == 1 && single.1.len() == 1 && single.1.as_u64() == 0 && single.2.len() == 3 && single.2.as_u64() == 0b101)
        });
        match r {
            Outcome::Val((a, b, c)) => if !(a && b && c) { ctx.violation("C17/bit-conversions", &format!("Bit / integer constructors disagree: conversions ok = {a}, from_iter over integers = from_iter over bools: {b}, From<T> / From<[T; N]> ok = {c}"), json!({"bits": model_str(&bits)})); return },
            Outcome::Panic(p) => { ctx.violation("C17/bit-conversions-panic", &format!("Bit / integer constructors panicked: {p}"), json!({"bits": model_str(&bits)})); return }
        }
    }
    let val = model_val(&bits);
    let mut good = true;
    let checks: Vec<(&str, Box<dyn Fn() -> BitSeq>, Vec<bool>)> = vec![
        ("new", Box::new(move || BitSeq::new(val, len)), bits.clone()),
        ("ones", Box::new(move || BitSeq::ones(len)), vec![true; len]),
        ("zeros", Box::new(move || BitSeq::zeros(len)), vec![false; len]),
        ("new_rev", Box::new(move || BitSeq::new_rev(val, len)), bits.iter().rev().cloned().collect()),
        ("from_iter", { let b = bits.clone(); Box::new(move || BitSeq::from_iter(b.iter().map(|&x| to_bit(x)))) }, bits.clone()),
        ("sub-full", { let b = bits.clone(); Box::new(move || BitSeq::from_iter(b.iter().map(|&x| to_bit(x))).sub(len)) }, bits.clone()),
    ];
    for (name, f, exp) in checks {
        hist.push(format!("{name} at len {len}"));
        match guarded(|| f()) {
            Ok(v) => { if !observe(ctx, &v, &exp, name, &hist) { good = false } }
            Err(p) => {
                good = false;
                let l64 = if len >= 63 { "/len>=63" } else { "" };
                ctx.violation(&format!("C17/{name}/rejected-valid{l64}"), &format!("{name} at length {len} panicked: {}", p.brief()), json!({"history": hist}));
            }
        }
    }
    // remove the last / first element, is_sub with itself, push beyond the end
    if len > 0 {
        for i in [0, len - 1] {
            let b = bits.clone();
            hist.push(format!("remove({i}) at len {len}"));
            let mut e = bits.clone(); e.remove(i);
            match guarded(move || { let mut x = BitSeq::from_iter(b.iter().map(|&x| to_bit(x))); x.remove(i); x }) {
                Ok(v) => { if !observe(ctx, &v, &e, "remove", &hist) { good = false } }
                Err(p) => { good = false; let l64 = if len >= 63 { "/len>=63" } else { "" };
                    ctx.violation(&format!("C17/remove/rejected-valid{l64}"), &format!("remove({i}) at length {len} panicked: {}", p.brief()), json!({"history": hist})); }
            }
        }
    }
    if good { ctx.ok("boundary", len >= 63, len as u64); }
}

pub fn run(ctx: &mut Ctx) {
    for len in 0..=64u64 {
        ctx.case("boundary", len, |c, r| boundary(c, r, len as usize));
    }
    let n = ctx.by_tier(900_000, 50_000_000);
    ctx.random_cases("history", n, |c, r| history(c, r));
}
