// C12 — sparse kernels (triangular solve, Schur complement, block splitting) are exact,
// on one thread and on many. All identities are re-multiplied by the oracle's dense arithmetic.

use std::collections::{BTreeMap, HashSet};
use std::sync::OnceLock;

use num_bigint::BigInt;
use serde_json::json;
use yui::{GaussInt, Ratio, Ring, RingOps, FF};
use yui_matrix::sparse::decomp::dir_sum_decomp;
use yui_matrix::sparse::schur::Schur;
use yui_matrix::sparse::triang::{inv_triangular, solve_triangular, solve_triangular_left, solve_triangular_vec, TriangularType};
use yui_matrix::sparse::{SpMat, SpVec};
use yui_matrix::verif::Event;
use yui_matrix::MatTrait;

use crate::bridge::{Bridge, Mag};
use crate::ctx::{guarded, hash_of, Ctx, Rng};
use crate::matx::*;
use crate::oracle::linalg::OMat;
use crate::oracle::num::*;
use crate::trace::{self, Policy};

fn pools() -> &'static BTreeMap<usize, rayon::ThreadPool> {
    static P: OnceLock<BTreeMap<usize, rayon::ThreadPool>> = OnceLock::new();
    P.get_or_init(|| [1usize, 2, 4, 16].into_iter().map(|k| (k, rayon::ThreadPoolBuilder::new().num_threads(k).build().expect("pool"))).collect())
}

fn unit_inv<O: OEuc>(u: &O) -> O { O::o1().divrem(u).0 }

/// random triangular matrix with unit diagonal entries (units of the ring, not only +-1)
fn gen_triang<T>(rng: &mut Rng, n: usize, upper: bool, dens: usize, mag: Mag) -> OMat<T::O>
where T: Bridge, T::O: OEuc {
    let units: Vec<T::O> = T::O::unit_samples().into_iter().filter(|u| T::try_from_o(u).is_some()).collect();
    OMat::from_fn(n, n, |i, j| {
        if i == j { rng.choose(&units).clone() }
        else if (upper && i < j) || (!upper && i > j) { if rng.below(100) < dens { T::gen(rng, mag) } else { T::O::o0() } }
        else { T::O::o0() }
    })
}

/// oracle: X = A^-1 Y by substitution (A triangular with unit diagonal)
fn o_solve<O: OEuc>(a: &OMat<O>, y: &OMat<O>, upper: bool) -> OMat<O> {
    let n = a.m;
    let mut x = OMat::<O>::zero(n, y.n);
    for c in 0..y.n {
        let order: Vec<usize> = if upper { (0..n).rev().collect() } else { (0..n).collect() };
        for &i in &order {
            let mut s = y.at(i, c).clone();
            for k in 0..n { if k != i && !a.at(i, k).is0() { s = s.sub(&a.at(i, k).mul(x.at(k, c))) } }
            x.set(i, c, s.mul(&unit_inv(a.at(i, i))));
        }
    }
    x
}

fn rand_zero_positions(rng: &mut Rng, m: usize, n: usize, k: usize) -> Vec<(usize, usize)> {
    if m == 0 || n == 0 { return vec![] }
    (0..k).map(|_| (rng.below(m), rng.below(n))).collect()
}

fn residue_events(log: &[(Event, u64)]) -> (usize, usize, usize) {
    // (#columns, #residue_nonzero, max columns handled by one worker thread)
    let mut per_thread: BTreeMap<u64, usize> = BTreeMap::new();
    let (mut cols, mut res) = (0, 0);
    for (e, t) in log {
        if let Event::ColDone { residue_nonzero, .. } = e { cols += 1; if *residue_nonzero { res += 1 } *per_thread.entry(*t).or_insert(0) += 1 }
    }
    (cols, res, per_thread.values().cloned().max().unwrap_or(0))
}

fn triang_case<T>(ctx: &mut Ctx, rng: &mut Rng, unbounded: bool)
where T: Ring + Bridge, for<'x> &'x T: RingOps<T>, T::O: OEuc {
    let tname = T::name();
    let n = if rng.chance(1, 10) { rng.urange(0, 2) } else { rng.urange(1, ctx.by_tier(24, 40)) };
    let upper = rng.chance(1, 2);
    let tt = if upper { TriangularType::Upper } else { TriangularType::Lower };
    let mag = if unbounded && rng.chance(1, 3) { Mag::Small } else { Mag::Tiny };
    let dens = *rng.choose(&[5usize, 15, 40]);
    let ao = gen_triang::<T>(rng, n, upper, dens, mag);
    let k = if rng.chance(1, 4) { rng.urange(50, ctx.by_tier(120, 300)) } else { rng.urange(0, 12) };
    let ydens = *rng.choose(&[10usize, 40]);
    let yo = rand_omat::<T>(rng, n, k, ydens, mag);
    let zeros_a = if rng.chance(1, 2) { rand_zero_positions(rng, n, n, n) } else { vec![] };
    let zeros_a: Vec<(usize, usize)> = zeros_a.into_iter().filter(|(i, j)| i != j).collect();
    let zeros_y = if rng.chance(1, 3) { rand_zero_positions(rng, n, k, k + 1) } else { vec![] };
    let (Some(a), Some(y)) = (o_to_sp_with_stored_zeros::<T>(&ao, &zeros_a), o_to_sp_with_stored_zeros::<T>(&yo, &zeros_y)) else { ctx.inconclusive("generator_unrepresentable"); return };
    let nthreads = *rng.choose(&[1usize, 2, 4, 16]);
    let policy = if rng.chance(1, 3) { Policy::SleepColStart } else { Policy::None };
    let which = rng.below(4);
    let op = ["solve_triangular", "solve_triangular_left", "inv_triangular", "solve_triangular_vec"][which];
    let cfg = json!({"ring": tname, "op": op, "n": n, "rhs_cols": k, "upper": upper, "threads": nthreads, "policy": format!("{:?}", policy), "stored_zeros": zeros_a.len() + zeros_y.len()});
    let wit = |extra: serde_json::Value| json!({"config": cfg, "A": if n <= 12 { ao.show() } else { format!("{}x{} (omitted)", n, n) }, "detail": extra});
    let pool = &pools()[&nthreads];
    trace::set_policy(policy, rng.next_u64(), 2);
    trace::start_recording();
    // the same pool is used for a short history of calls: worker-local scratch state must not leak between them
    let reps = if k >= 50 { 1 } else { rng.urange(1, 3) };
    let mut verdict: Option<(String, String)> = None;
    let mut overflow = false;
    for _ in 0..reps {
        let r: Result<Option<String>, _> = guarded(|| pool.install(|| -> Option<String> {
            match which {
                0 => { let x = sp_to_o(&solve_triangular(tt, &a, &y)); if ao.mul(&x) != yo { Some("A * X != Y".into()) } else if x != o_solve(&ao, &yo, upper) { Some("X differs from the substitution solution".into()) } else { None } }
                1 => {
                    let yt = y.transpose();
                    let x = sp_to_o(&solve_triangular_left(tt, &a, &yt));
                    if x.mul(&ao) != yo.transpose() { Some("X * A != Y".into()) } else { None }
                }
                2 => { let x = sp_to_o(&inv_triangular(tt, &a)); if !ao.mul(&x).is_id() || !x.mul(&ao).is_id() { Some("A * A^-1 != I".into()) } else { None } }
                _ => {
                    if k == 0 { return None }
                    let b: SpVec<T> = y.col_vec(0);
                    let x = spvec_to_o(&solve_triangular_vec(tt, &a, &b));
                    let xo = OMat { m: n, n: 1, d: x };
                    if ao.mul(&xo) != yo.submat(0, n, 0, 1) { Some("A * x != b".into()) } else { None }
                }
            }
        }));
        match r {
            Ok(None) => {}
            Ok(Some(msg)) => { verdict = Some(("wrong-result".into(), msg)); break }
            Err(p) => { if !unbounded && p.is_overflow() { overflow = true } else { verdict = Some(("panic".into(), format!("{op} panicked: {}", p.brief()))) } break }
        }
    }
    let log = trace::stop_recording();
    trace::set_policy(Policy::None, 0, 2);
    let (cols, res, maxcols) = residue_events(&log);
    ctx.count("triang_columns_solved", cols as i64);
    ctx.count("scratch_residue_nonzero_events(diagnostic)", res as i64);
    ctx.maxv("max_columns_on_one_worker", maxcols as i64);
    if overflow { ctx.inconclusive("overflow_machine_int"); return }
    if let Some((k2, msg)) = verdict {
        ctx.violation(&format!("C12/{tname}/{op}/{k2}"), &format!("{msg} ({nthreads} threads, {} rhs columns, residue events {res})", k), wit(json!({"residue_nonzero_events": res})));
        return
    }
    let class = format!("{tname}/{op}");
    ctx.ok(&class, maxcols >= 2 || n >= 2, hash_of(&(ao.show(), yo.show(), which, nthreads)));
    if ctx.want_sample(&class) { ctx.sample(&class, cfg.clone()) }
}

fn schur_case<T>(ctx: &mut Ctx, rng: &mut Rng, unbounded: bool)
where T: Ring + Bridge, for<'x> &'x T: RingOps<T>, T::O: OEuc {
    let tname = T::name();
    let maxd = ctx.by_tier(16, 30);
    let (m, n) = (rng.urange(0, maxd), rng.urange(0, maxd));
    let r = match rng.below(5) { 0 => 0, 1 => m.min(n), _ => rng.urange(0, m.min(n)) };
    let upper = rng.chance(1, 2);
    let tt = if upper { TriangularType::Upper } else { TriangularType::Lower };
    let mag = if unbounded && rng.chance(1, 3) { Mag::Small } else { Mag::Tiny };
    let a = gen_triang::<T>(rng, r, upper, 25, mag);
    let dens = *rng.choose(&[10usize, 30, 60]);
    let rest = rand_omat::<T>(rng, m, n, dens, mag);
    let mo = OMat::from_fn(m, n, |i, j| if i < r && j < r { a.at(i, j).clone() } else { rest.at(i, j).clone() });
    let zeros = if rng.chance(1, 2) { rand_zero_positions(rng, m, n, m + n).into_iter().filter(|(i, j)| !(i == j && *i < r)).collect() } else { vec![] };
    let Some(ml) = o_to_sp_with_stored_zeros::<T>(&mo, &zeros) else { ctx.inconclusive("generator_unrepresentable"); return };
    let with_trans = rng.chance(3, 4);
    let nthreads = *rng.choose(&[1usize, 2, 4, 16]);
    let policy = if rng.chance(1, 3) { Policy::SleepColStart } else { Policy::None };
    let cfg = json!({"ring": tname, "op": "schur", "shape": [m, n], "r": r, "upper": upper, "with_trans": with_trans, "threads": nthreads, "stored_zeros": zeros.len()});
    let wit = |extra: serde_json::Value| json!({"config": cfg, "M": if m * n <= 150 { mo.show() } else { format!("{}x{} (omitted)", m, n) }, "detail": extra});
    // expected S = D - C A^-1 B
    let b = mo.submat(0, r, r, n);
    let c = mo.submat(r, m, 0, r);
    let d = mo.submat(r, m, r, n);
    let ainvb = o_solve(&a, &b, upper);
    let s_exp = d.sub(&c.mul(&ainvb));
    trace::set_policy(policy, rng.next_u64(), 2);
    let pool = &pools()[&nthreads];
    let res = guarded(|| pool.install(|| {
        let s = Schur::from_partial_triangular(tt, &ml, r, with_trans);
        let comp = sp_to_o(s.complement());
        let src = s.trans_src().map(|t| (sp_to_o(&t.forward_mat()), sp_to_o(&t.backward_mat())));
        let tgt = s.trans_tgt().map(|t| (sp_to_o(&t.forward_mat()), sp_to_o(&t.backward_mat())));
        // disassemble() hands out the same three parts
        let (c2, s2, t2) = s.disassemble();
        let src2 = s2.map(|t| (sp_to_o(&t.forward_mat()), sp_to_o(&t.backward_mat())));
        let tgt2 = t2.map(|t| (sp_to_o(&t.forward_mat()), sp_to_o(&t.backward_mat())));
        if sp_to_o(&c2) != comp || src2 != src || tgt2 != tgt { panic!("C12-schur-disassemble-differs") }
        (comp, src, tgt)
    }));
    trace::set_policy(Policy::None, 0, 2);
    let (comp, src, tgt) = match res {
        Ok(x) => x,
        Err(p) => {
            if p.brief().contains("C12-schur-disassemble-differs") { ctx.violation(&format!("C12/{tname}/schur/disassemble"), "Schur::disassemble differs from complement() / trans_src() / trans_tgt()", wit(json!(null))); return }
            if !unbounded && p.is_overflow() { ctx.inconclusive("overflow_machine_int"); return }
            ctx.violation(&format!("C12/{tname}/schur/panic"), &format!("Schur::from_partial_triangular panicked: {}", p.brief()), wit(json!(null)));
            return
        }
    };
    let mut bad: Option<(&str, String)> = None;
    if comp != s_exp { bad = Some(("complement", format!("S != D - C A^-1 B ({} threads)", nthreads))) }
    else if src.is_some() != with_trans || tgt.is_some() != with_trans { bad = Some(("flags", "transfer maps do not match the flag".into())) }
    else if let (Some((fs, bs)), Some((ft, bt))) = (&src, &tgt) {
        if (fs.m, fs.n, bs.m, bs.n) != (n - r, n, n, n - r) || (ft.m, ft.n, bt.m, bt.n) != (m - r, m, m, m - r) { bad = Some(("trans-shape", "transfer maps have the wrong shapes".into())) }
        else if ft.mul(&mo).mul(bs) != s_exp { bad = Some(("f-m-b", "F_tgt * M * B_src != S".into())) }
        else if !fs.mul(bs).is_id() { bad = Some(("fb-src", "F_src * B_src != I".into())) }
        else if !ft.mul(bt).is_id() { bad = Some(("fb-tgt", "F_tgt * B_tgt != I".into())) }
        // the maps are chain maps between M and [A 0; 0 S]-reduced complexes: F_tgt M = S F_src on the reduced part
        else if ft.mul(&mo) != s_exp.mul(fs) { bad = Some(("ftgt-m-s-fsrc", "F_tgt * M != S * F_src".into())) }
        else if mo.mul(bs) != bt.mul(&s_exp) { bad = Some(("m-bsrc-btgt-s", "M * B_src != B_tgt * S".into())) }
    }
    if let Some((k, msg)) = bad {
        ctx.violation(&format!("C12/{tname}/schur/{k}"), &msg, wit(json!({"S": comp.show(), "expected": s_exp.show()})));
        return
    }
    let class = format!("{tname}/schur");
    ctx.ok(&class, r >= 1, hash_of(&(mo.show(), r, upper)));
    if ctx.want_sample(&class) { ctx.sample(&class, cfg.clone()) }
}

fn decomp_case(ctx: &mut Ctx, rng: &mut Rng) {
    // scrambled block-diagonal integer matrix with empty rows and columns
    let nblocks = rng.urange(0, 6);
    let mut blocks: Vec<(usize, usize)> = (0..nblocks).map(|_| (rng.urange(1, 6), rng.urange(1, 6))).collect();
    if rng.chance(1, 6) { blocks.push((rng.urange(6, 14), rng.urange(6, 20))) }
    // "comb" family: a few wide components whose columns all meet in a spine row, so that the parallel
    // union-find sees very many overlapping column pairs of the same component at once
    let comb = rng.chance(1, 4);
    if comb {
        blocks.clear();
        for _ in 0..rng.urange(1, 3) { blocks.push((rng.urange(2, 6), rng.urange(20, 130))) }
    }
    // "skew" family: blocks with one long column (17..60 entries) and several short ones (2..3 entries) that
    // meet it in a single row each — column pairs of very different lengths
    let skew = !comb && rng.chance(1, 5);
    if skew {
        blocks.clear();
        for _ in 0..rng.urange(1, 3) { blocks.push((rng.urange(20, 70), rng.urange(3, 8))) }
    }
    let (er, ec) = (rng.urange(0, 3), rng.urange(0, 3));
    let m: usize = blocks.iter().map(|b| b.0).sum::<usize>() + er;
    let n: usize = blocks.iter().map(|b| b.1).sum::<usize>() + ec;
    let mut e: Vec<(usize, usize, i64)> = vec![];
    let (mut r0, mut c0) = (0, 0);
    for &(bm, bn) in &blocks {
        if skew {
            // column 0 is long; every other column has 2..3 entries, exactly one of them in a row of column 0
            let mut rows: Vec<usize> = (0..bm).collect();
            rng.shuffle(&mut rows);
            let nlong = rng.urange(17, bm.min(60)).min(bm - 2);
            let (long_rows, other_rows) = rows.split_at(nlong);
            for &i in long_rows { e.push((r0 + i, c0, rng.range(1, 3))) }
            let mut used_other = vec![];
            for j in 1..bn {
                e.push((r0 + *rng.choose(long_rows), c0 + j, rng.range(1, 3)));
                for _ in 0..rng.urange(1, 2) { let i = *rng.choose(other_rows); used_other.push(i); e.push((r0 + i, c0 + j, rng.range(-3, -1))) }
            }
            // rows not yet used: hang them on the long column so that the block is one component
            for &i in other_rows { if !used_other.contains(&i) { e.push((r0 + i, c0, 2)) } }
            r0 += bm; c0 += bn;
            continue
        }
        // connected block: a random spanning structure plus extras
        for i in 0..bm { e.push((r0 + i, c0 + rng.below(bn), rng.range(1, 3))) }
        for j in 0..bn { e.push((r0 + rng.below(bm), c0 + j, rng.range(-3, -1))) }
        // chain rows/cols together so that the block is connected
        for i in 1..bm { let j = rng.below(bn); e.push((r0 + i, c0 + j, 1)); e.push((r0 + i - 1, c0 + j, 1)) }
        if comb { for j in 0..bn { e.push((r0, c0 + j, 1)) } }
        r0 += bm; c0 += bn;
    }
    let (p, q) = (rng.perm(m), rng.perm(n));
    let mut dense = vec![vec![0i64; n]; m];
    for &(i, j, v) in &e { dense[p[i]][q[j]] = if dense[p[i]][q[j]] + v == 0 { 1 } else { dense[p[i]][q[j]] + v } }
    let with_zeros = rng.chance(1, 3);
    let ao = OMat::<Z>::from_fn(m, n, |i, j| z(dense[i][j]));
    let zeros = if with_zeros { rand_zero_positions(rng, m, n, (m + n) / 2 + 1) } else { vec![] };
    let Some(a) = o_to_sp_with_stored_zeros::<i64>(&ao, &zeros) else { return };
    let nthreads = *rng.choose(&[1usize, 2, 4, 16]);
    let policy = if rng.chance(1, 2) { Policy::SleepColStart } else { Policy::None };
    let cfg = json!({"op": "dir_sum_decomp", "comb_family": comb, "skew_family": skew, "shape": [m, n], "planted_blocks": blocks, "empty_rows": er, "empty_cols": ec, "stored_zeros": with_zeros, "threads": nthreads, "policy": format!("{:?}", policy)});
    let wit = |extra: serde_json::Value| json!({"config": cfg, "A": if m * n <= 400 { ao.show() } else { format!("{}x{} (omitted; regenerate from the case seed)", m, n) }, "detail": extra});
    trace::set_policy(policy, rng.next_u64(), 2);
    let pool = &pools()[&nthreads];
    let a2 = a.clone();
    let res = guarded(move || pool.install(move || {
        let idx = yui_matrix::sparse::decomp::dir_sum_indices(&a2);
        let (p, q, s) = dir_sum_decomp(a2);
        let pv: Vec<usize> = (0..p.view().dim()).map(|i| p.view().at(i)).collect();
        let qv: Vec<usize> = (0..q.view().dim()).map(|j| q.view().at(j)).collect();
        // dir_sum_indices: the index groups of the same decomposition — block k of the result has the shape of
        // (rows[k], cols[k]), every entry of the matrix lies in exactly one group pair
        if let Some((rows, cols)) = &idx {
            if rows.len() != cols.len() || rows.len() != s.len() || (0..s.len()).any(|k| s[k].shape() != (rows[k].len(), cols[k].len())) { panic!("C12-dir-sum-indices-differ") }
        } else if s.len() != 1 { panic!("C12-dir-sum-indices-differ") }
        (pv, qv, s)
    }));
    trace::set_policy(Policy::None, 0, 2);
    let (pv, qv, s) = match res {
        Ok(x) => x,
        Err(p) => {
            if p.brief().contains("C12-dir-sum-indices-differ") { ctx.violation("C12/i64/decomp/indices", "dir_sum_indices does not describe the blocks dir_sum_decomp returns", wit(json!(null))); return }
            ctx.violation("C12/i64/decomp/panic", &format!("dir_sum_decomp panicked ({} threads): {}", nthreads, p.brief()), wit(json!(null))); return
        }
    };
    let mut bad: Option<(&str, String)> = None;
    // "the same value on one thread and on many": the decomposition is not unique mathematically, so the
    // value returned on a one-thread pool (no schedule perturbation) is the reference, compared exactly
    if nthreads > 1 {
        let a3 = a.clone();
        let one = guarded(move || pools()[&1].install(move || {
            let (p, q, s) = dir_sum_decomp(a3);
            let pv: Vec<usize> = (0..p.view().dim()).map(|i| p.view().at(i)).collect();
            let qv: Vec<usize> = (0..q.view().dim()).map(|j| q.view().at(j)).collect();
            (pv, qv, s)
        }));
        match one {
            Ok((p1, q1, s1)) => {
                ctx.count("decomp_one_vs_many_compared", 1);
                if p1 != pv || q1 != qv || s1 != s {
                    let what = if s1.len() != s.len() { "number of blocks" } else if s1 != s { "blocks (or their order)" } else { "permutations" };
                    bad = Some(("one-thread-vs-many", format!("dir_sum_decomp returned a different value on {nthreads} threads than on one thread: {what} differ")));
                }
            }
            Err(p) => { ctx.violation("C12/i64/decomp/panic", &format!("dir_sum_decomp panicked (1 thread): {}", p.brief()), wit(json!(null))); return }
        }
    }
    let is_perm = |v: &Vec<usize>, k: usize| v.len() == k && v.iter().cloned().collect::<HashSet<_>>().len() == k && v.iter().all(|&x| x < k);
    if bad.is_some() {}
    else if !is_perm(&pv, m) || !is_perm(&qv, n) { bad = Some(("perm", "returned permutations are not permutations".into())) }
    else {
        // permuted matrix by definition
        let mut perm = OMat::<Z>::zero(m, n);
        for i in 0..m { for j in 0..n { perm.set(pv[i], qv[j], ao.at(i, j).clone()) } }
        // block sum padded with zeros
        let mut sum = OMat::<Z>::zero(m, n);
        let (mut r0, mut c0) = (0, 0);
        let mut fits = true;
        for b in &s {
            let bo = sp_to_o(b);
            if r0 + bo.m > m || c0 + bo.n > n { fits = false; break }
            for i in 0..bo.m { for j in 0..bo.n { sum.set(r0 + i, c0 + j, bo.at(i, j).clone()) } }
            r0 += bo.m; c0 += bo.n;
        }
        if !fits { bad = Some(("block-shapes", "the blocks do not fit into the matrix".into())) }
        else if perm != sum { bad = Some(("block-sum", format!("the permuted matrix is not the block-diagonal sum of the {} returned blocks ({} threads)", s.len(), nthreads))) }
        else if !with_zeros {
            // own component count of the bipartite row/column graph (components that contain an entry)
            let mut parent: Vec<usize> = (0..m + n).collect();
            fn find(p: &mut Vec<usize>, x: usize) -> usize { let mut x = x; while p[x] != x { p[x] = p[p[x]]; x = p[x] } x }
            let mut touched = HashSet::new();
            for i in 0..m { for j in 0..n { if dense[i][j] != 0 { let (a1, b1) = (find(&mut parent, i), find(&mut parent, m + j)); parent[a1] = b1; touched.insert(i); } } }
            let comps: HashSet<usize> = touched.iter().map(|&i| find(&mut parent, i)).collect();
            if s.len() != comps.len() && !(comps.is_empty() && s.len() == 1 && (m == 0 || n == 0 || ao.is_zero())) {
                bad = Some(("block-count", format!("{} blocks returned but the matrix has {} connected components ({} threads)", s.len(), comps.len(), nthreads)));
            }
        }
    }
    if let Some((k, msg)) = bad {
        ctx.violation(&format!("C12/i64/decomp/{k}"), &msg, wit(json!({"p": pv, "q": qv, "block_shapes": s.iter().map(|b| b.shape()).collect::<Vec<_>>()})));
        return
    }
    ctx.ok("i64/decomp", blocks.len() >= 2, hash_of(&(ao.show(), with_zeros)));
    if ctx.want_sample("i64/decomp") { ctx.sample("i64/decomp", cfg.clone()) }
}

pub fn run(ctx: &mut Ctx) {
    let n = ctx.by_tier(20_000u64, 600_000);
    macro_rules! go { ($t:ty, $unb:expr) => {
        ctx.random_cases(&format!("{}/triang", <$t as Bridge>::name()), n, |c, r| triang_case::<$t>(c, r, $unb));
        ctx.random_cases(&format!("{}/schur", <$t as Bridge>::name()), n, |c, r| schur_case::<$t>(c, r, $unb));
    }; }
    go!(i64, false);
    go!(BigInt, true);
    go!(Ratio<i64>, false);
    go!(Ratio<BigInt>, true);
    go!(FF<5>, true);
    go!(FF<7>, true);
    go!(GaussInt<i64>, false);
    ctx.random_cases("i64/decomp", n * 3, |c, r| decomp_case(c, r));
}
