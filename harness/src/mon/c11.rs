// C11 — the parallel pivot search returns an acyclic (triangular) pivot set.
// Final-state oracle (distinctness, condition, triangularity by definition and through the
// library's own permutations) + trace monitor over the cfg(yui_verif) hook events
// (commit order, freshness, acyclicity of every commit w.r.t. all earlier ones, staleness /
// retry statistics) under schedule perturbation (sleeps, herds, yield storms) and
// varying pool sizes.

use std::collections::{BTreeMap, HashMap, HashSet};
use std::sync::OnceLock;

use serde_json::json;
use yui::poly::Poly;
use yui::{Ratio, Ring, RingOps, FF};
use yui_matrix::sparse::pivot::{find_pivots, perms_by_pivots, PivotCondition, PivotType};
use yui_matrix::sparse::SpMat;
use yui_matrix::verif::Event;
use yui_matrix::MatTrait;

use crate::ctx::{guarded, hash_of, Ctx, Rng};
use crate::trace::{self, Policy};

pub trait PivRing: Ring + Clone where for<'x> &'x Self: RingOps<Self> {
    fn rname() -> &'static str;
    fn pm_ones() -> Vec<Self>;
    fn other_units() -> Vec<Self>;
    fn non_units() -> Vec<Self>;
    /// heavy non-candidate used as head entry of the "starved" family (None: family not available)
    fn heavy() -> Option<Self>;
    // hand-written classification, independent of the library's is_unit / is_pm_one
    fn o_is_pm_one(&self) -> bool;
    fn o_is_unit(&self) -> bool;
}

impl PivRing for i64 {
    fn rname() -> &'static str { "i64" }
    fn pm_ones() -> Vec<Self> { vec![1, -1] }
    fn other_units() -> Vec<Self> { vec![] }
    fn non_units() -> Vec<Self> { vec![2, -2, 3, -3, 5] }
    fn heavy() -> Option<Self> { Some(1000) }
    fn o_is_pm_one(&self) -> bool { *self == 1 || *self == -1 }
    fn o_is_unit(&self) -> bool { *self == 1 || *self == -1 }
}

impl PivRing for Ratio<i64> {
    fn rname() -> &'static str { "Ratio<i64>" }
    fn pm_ones() -> Vec<Self> { vec![Ratio::from(1), Ratio::from(-1)] }
    fn other_units() -> Vec<Self> { vec![Ratio::from(2), Ratio::new(1, 2), Ratio::new(-3, 2), Ratio::from(5), Ratio::new(-1, 3)] }
    fn non_units() -> Vec<Self> { vec![] }
    fn heavy() -> Option<Self> { Some(Ratio::from(1000)) }
    fn o_is_pm_one(&self) -> bool { *self.denom() == 1 && (*self.numer() == 1 || *self.numer() == -1) }
    fn o_is_unit(&self) -> bool { *self.numer() != 0 }
}

impl PivRing for FF<3> {
    fn rname() -> &'static str { "FF<3>" }
    fn pm_ones() -> Vec<Self> { vec![FF::new(1), FF::new(2)] }
    fn other_units() -> Vec<Self> { vec![] }
    fn non_units() -> Vec<Self> { vec![] }
    fn heavy() -> Option<Self> { None }
    fn o_is_pm_one(&self) -> bool { *self.rep() == 1 || *self.rep() == 2 }
    fn o_is_unit(&self) -> bool { *self.rep() != 0 }
}

impl PivRing for FF<5> {
    fn rname() -> &'static str { "FF<5>" }
    fn pm_ones() -> Vec<Self> { vec![FF::new(1), FF::new(4)] }
    fn other_units() -> Vec<Self> { vec![FF::new(2), FF::new(3)] }
    fn non_units() -> Vec<Self> { vec![] }
    fn heavy() -> Option<Self> { None }
    fn o_is_pm_one(&self) -> bool { *self.rep() == 1 || *self.rep() == 4 }
    fn o_is_unit(&self) -> bool { *self.rep() != 0 }
}

type PH = Poly<'H', i64>;
impl PivRing for PH {
    fn rname() -> &'static str { "Poly<H,i64>" }
    fn pm_ones() -> Vec<Self> { vec![PH::from_const(1), PH::from_const(-1)] }
    fn other_units() -> Vec<Self> { vec![] }
    fn non_units() -> Vec<Self> {
        let h = PH::variable();
        vec![h.clone(), PH::from_const(2), &h + PH::from_const(1), &h * &h, -h]
    }
    fn heavy() -> Option<Self> { None }
    fn o_is_pm_one(&self) -> bool {
        let t: Vec<(usize, i64)> = self.iter().filter(|(_, c)| **c != 0).map(|(x, c)| (yui::poly::Mono::deg(x), *c)).collect();
        t.len() == 1 && t[0].0 == 0 && (t[0].1 == 1 || t[0].1 == -1)
    }
    fn o_is_unit(&self) -> bool { self.o_is_pm_one() }
}

fn pools() -> &'static BTreeMap<usize, rayon::ThreadPool> {
    static P: OnceLock<BTreeMap<usize, rayon::ThreadPool>> = OnceLock::new();
    P.get_or_init(|| [1usize, 2, 3, 4, 8, 16].into_iter().map(|k| (k, rayon::ThreadPoolBuilder::new().num_threads(k).build().expect("pool"))).collect())
}

pub struct Input<T> { pub m: usize, pub n: usize, pub entries: Vec<(usize, usize, T)>, pub family: &'static str }

fn pick<T: Clone>(rng: &mut Rng, v: &[T]) -> T { rng.choose(v).clone() }

fn gen_random<T: PivRing>(rng: &mut Rng, max_dim: usize) -> Input<T> where for<'x> &'x T: RingOps<T> {
    let (m, n) = (rng.urange(1, max_dim), rng.urange(1, max_dim));
    let per_row = rng.urange(1, 5);
    let ones = T::pm_ones();
    let mut other: Vec<T> = T::other_units();
    other.extend(T::non_units());
    let pct_other = if other.is_empty() { 0 } else { *rng.choose(&[0usize, 15, 40]) };
    let mut entries = vec![];
    for i in 0..m {
        let k = if rng.chance(1, 15) { 0 } else { rng.urange(1, per_row.min(n)) };
        let mut cols = HashSet::new();
        for _ in 0..k { cols.insert(rng.below(n)); }
        for j in cols {
            let v = if rng.below(100) < pct_other { pick(rng, &other) } else { pick(rng, &ones) };
            entries.push((i, j, v));
        }
    }
    Input { m, n, entries, family: "random" }
}

/// one light dense row that becomes the single sequential pivot and occupies every column; every other
/// row starts with a heavy non-candidate and carries a few +-1 in columns shared with other rows
pub fn gen_starved<T: PivRing>(rng: &mut Rng, max_dim: usize) -> Option<Input<T>> where for<'x> &'x T: RingOps<T> {
    let heavy = T::heavy()?;
    let ones = T::pm_ones();
    let m = rng.urange(3, max_dim);
    let n = rng.urange(6, max_dim + 4);
    let mut entries = vec![];
    // row 0: small non-candidate head at column 0, then +-1 everywhere: the lightest row, occupies every column.
    // Column 1 is private to row 0, hence the lightest column and row 0's pivot column.
    let small_nc = T::non_units().first().cloned().or_else(|| T::other_units().first().cloned())?;
    entries.push((0, 0, small_nc));
    for j in 1..n { entries.push((0, j, pick(rng, &ones))) }
    // every other row: heavy non-candidate head at column 2, a few +-1 in a shared span of columns 3.. :
    // none of them meets row 0's pivot column, so all of them reach the parallel phase with live candidates;
    // a narrow span makes their candidates collide (mutually cyclic choices).
    let width = rng.urange(2, 4);
    let span = rng.urange(2, n - 3);
    for i in 1..m {
        entries.push((i, 2, heavy.clone()));
        let mut cols: Vec<usize> = (0..width).map(|_| 3 + rng.below(span)).collect();
        cols.sort(); cols.dedup();
        // some of the shared columns carry a (light) non-candidate instead of +-1: another row's pivot may land there
        let mut light_nc: Vec<T> = T::non_units();
        light_nc.extend(T::other_units());
        for &j in &cols {
            let v = if !light_nc.is_empty() && rng.chance(1, 3) { pick(rng, &light_nc) } else { pick(rng, &ones) };
            entries.push((i, j, v))
        }
    }
    Some(Input { m, n, entries, family: "starved" })
}

fn cond_holds<T: PivRing>(x: &T, c: &PivotCondition) -> bool where for<'x> &'x T: RingOps<T> {
    match c {
        PivotCondition::One => x.o_is_pm_one(),
        PivotCondition::AnyUnit => x.o_is_unit(),
        PivotCondition::Weight(w) => x.o_is_unit() && x.c_weight() <= *w,
    }
}

fn case<T: PivRing>(ctx: &mut Ctx, rng: &mut Rng) where for<'x> &'x T: RingOps<T> {
    let tname = T::rname();
    let max_dim = ctx.by_tier(40, 60);
    let starved = rng.chance(3, 5);
    let mut input = if starved { gen_starved::<T>(rng, max_dim.min(24)).unwrap_or_else(|| gen_random::<T>(rng, max_dim)) } else { gen_random::<T>(rng, max_dim) };
    let ptype = if rng.chance(1, 2) { PivotType::Rows } else { PivotType::Cols };
    if ptype == PivotType::Cols {
        // the search works on the transposed structure: transpose the input so the family keeps its shape
        input = Input { m: input.n, n: input.m, entries: input.entries.into_iter().map(|(i, j, v)| (j, i, v)).collect(), family: input.family };
    }
    let cond = match rng.below(5) {
        0 | 1 => PivotCondition::One,
        2 => PivotCondition::AnyUnit,
        _ => PivotCondition::Weight(*rng.choose(&[1.0, 2.0, 3.0, 5.0])),
    };
    let nthreads = *rng.choose(&[1usize, 2, 3, 4, 8, 16]);
    let policy = *rng.choose(&[Policy::None, Policy::SleepBeforeLock, Policy::SleepBeforeLock, Policy::Herd, Policy::YieldStorm]);
    let (m, n) = (input.m, input.n);
    let a: SpMat<T> = SpMat::from_entries((m, n), input.entries.iter().cloned());
    let mut at: HashMap<(usize, usize), T> = HashMap::new();
    for (i, j, v) in a.iter() { if !v.is_zero() { at.insert((i, j), v.clone()); } }
    let show_entries = || -> Vec<String> { let mut e: Vec<String> = at.iter().map(|((i, j), v)| format!("({i},{j})={v}")).collect(); e.sort(); e };
    let cfg = json!({"ring": tname, "family": input.family, "shape": [m, n], "type": format!("{:?}", ptype), "cond": format!("{:?}", cond),
        "threads": nthreads, "policy": format!("{:?}", policy)});

    trace::set_policy(policy, rng.next_u64(), nthreads.min(4));
    trace::start_recording();
    let pool = &pools()[&nthreads];
    // one call in four goes through the public PivotFinder object instead of the free function
    let via_object = rng.chance(1, 4);
    let res = guarded(|| pool.install(|| if via_object {
        let mut f = yui_matrix::sparse::pivot::PivotFinder::new(&a, ptype, cond);
        f.find_pivots();
        f.result()
    } else { find_pivots(&a, ptype, cond) }));
    let log = trace::stop_recording();
    trace::set_policy(Policy::None, 0, 2);

    let wit = |extra: serde_json::Value, log: &Vec<(Event, u64)>| json!({"config": cfg, "entries": show_entries(), "detail": extra,
        "events": log.iter().filter(|(e, _)| !matches!(e, Event::PivTaskStart { .. } | Event::PivTaskEnd { .. })).take(80).map(|(e, t)| format!("t{t}:{:?}", e)).collect::<Vec<_>>()});

    let pivs = match res {
        Ok(p) => p,
        Err(p) => {
            ctx.violation(&format!("C11/{tname}/panic"), &format!("find_pivots panicked ({} threads, {:?}): {}", nthreads, policy, p.brief()), wit(json!(null), &log));
            return
        }
    };

    // ---- final-state oracle
    let mut bad: Option<(&str, String)> = None;
    let rows: HashSet<usize> = pivs.iter().map(|p| p.0).collect();
    let cols: HashSet<usize> = pivs.iter().map(|p| p.1).collect();
    if rows.len() != pivs.len() { bad = Some(("duplicate-row", format!("pivot list {:?} repeats a row", pivs))) }
    else if cols.len() != pivs.len() { bad = Some(("duplicate-col", format!("pivot list {:?} repeats a column", pivs))) }
    else if let Some(&(i, j)) = pivs.iter().find(|&&(i, j)| i >= m || j >= n || !at.get(&(i, j)).map(|x| cond_holds(x, &cond)).unwrap_or(false)) {
        bad = Some(("condition", format!("pivot ({i},{j}) = {:?} does not satisfy {:?}", at.get(&(i, j)).map(|x| x.to_string()), cond)))
    } else {
        // by definition: block B[k][l] = a[i_k][j_l]
        let r = pivs.len();
        let (mut upper, mut lower) = (true, true);
        for k in 0..r { for l in 0..r {
            if at.contains_key(&(pivs[k].0, pivs[l].1)) { if k > l { upper = false } if k < l { lower = false } }
        } }
        if !upper && !lower { bad = Some(("not-triangular", format!("the leading {r}x{r} block of the permuted matrix is not triangular (pivots {:?})", pivs))) }
        else {
            // through the library's own permutations
            match guarded(|| { let (p, q) = perms_by_pivots(&a, &pivs); a.permute(p.view(), q.view()) }) {
                Ok(b) => {
                    let mut bt: HashMap<(usize, usize), T> = HashMap::new();
                    for (i, j, v) in b.iter() { if !v.is_zero() { bt.insert((i, j), v.clone()); } }
                    let diag_ok = (0..r).all(|k| bt.get(&(k, k)) == at.get(&pivs[k]));
                    let (mut up2, mut lo2) = (true, true);
                    for (&(i, j), _) in bt.iter() { if i < r && j < r { if i > j { up2 = false } if i < j { lo2 = false } } }
                    if b.shape() != (m, n) || bt.len() != at.len() || !diag_ok || (!up2 && !lo2) {
                        bad = Some(("permuted-block", "after perms_by_pivots + permute the leading block is not triangular with the pivots on the diagonal".into()))
                    }
                }
                Err(p) => bad = Some(("permute-panic", format!("perms_by_pivots/permute panicked: {}", p.brief()))),
            }
        }
    }

    // ---- trace monitor
    let mut commits: Vec<(usize, usize, usize, usize)> = vec![]; // row, col, snapshot, index (in transposed coordinates for Cols)
    let (mut retries, mut stale, mut phase2) = (0usize, 0usize, None);
    for (e, _) in &log {
        match e {
            Event::PivPhaseDone { phase: 2, count } => phase2 = Some(*count),
            Event::PivRetry { .. } => retries += 1,
            Event::PivCommit { row, col, snapshot, index } => { commits.push((*row, *col, *snapshot, *index)); if snapshot < index { stale += 1 } }
            _ => {}
        }
    }
    let tasks = log.iter().filter(|(e, _)| matches!(e, Event::PivTaskStart { .. })).count();
    if bad.is_none() && !log.is_empty() {
        let to_rc = |row: usize, col: usize| if ptype == PivotType::Rows { (row, col) } else { (col, row) };
        let base = phase2.unwrap_or(0);
        let final_set: HashSet<(usize, usize)> = pivs.iter().cloned().collect();
        let committed: HashSet<(usize, usize)> = commits.iter().map(|c| to_rc(c.0, c.1)).collect();
        // structure in search coordinates: row -> cols
        let mut row_cols: HashMap<usize, Vec<usize>> = HashMap::new();
        for &(i, j) in at.keys() { let (r, c) = if ptype == PivotType::Rows { (i, j) } else { (j, i) }; row_cols.entry(r).or_default().push(c); }
        // pivots known before the parallel phase
        let mut piv_row_of_col: HashMap<usize, usize> = HashMap::new();
        for &(i, j) in pivs.iter() { if !committed.contains(&(i, j)) { let (r, c) = if ptype == PivotType::Rows { (i, j) } else { (j, i) }; piv_row_of_col.insert(c, r); } }
        if piv_row_of_col.len() != base && phase2.is_some() {
            bad = Some(("trace-count", format!("{} pivots are not parallel commits but the sequential phases reported {}", piv_row_of_col.len(), base)));
        }
        let mut seen_rows: HashSet<usize> = piv_row_of_col.values().cloned().collect();
        for (k, &(row, col, snapshot, index)) in commits.iter().enumerate() {
            if bad.is_some() { break }
            if index != base + k { bad = Some(("trace-index", format!("commit #{k} has index {index}, expected {}", base + k))); break }
            if snapshot > index { bad = Some(("trace-snapshot", format!("commit #{k}: snapshot {snapshot} > index {index}"))); break }
            if !final_set.contains(&to_rc(row, col)) { bad = Some(("trace-lost-commit", format!("commit ({row},{col}) is missing from the result"))); break }
            if piv_row_of_col.contains_key(&col) || !seen_rows.insert(row) { bad = Some(("trace-not-fresh", format!("commit #{k} ({row},{col}) reuses a pivot row or column"))); break }
            // acyclicity w.r.t. all earlier pivots: from the pivot columns in `row`, following pivot rows, column `col` must not be reached
            let mut stack: Vec<usize> = row_cols.get(&row).map(|v| v.iter().filter(|c| **c != col && piv_row_of_col.contains_key(c)).cloned().collect()).unwrap_or_default();
            let mut visited: HashSet<usize> = stack.iter().cloned().collect();
            let mut cyclic = false;
            while let Some(c) = stack.pop() {
                let r2 = piv_row_of_col[&c];
                for &c2 in row_cols.get(&r2).map(|v| v.as_slice()).unwrap_or(&[]) {
                    if c2 == col { cyclic = true }
                    if piv_row_of_col.contains_key(&c2) && visited.insert(c2) { stack.push(c2) }
                }
            }
            if cyclic { bad = Some(("trace-cyclic-commit", format!("commit #{k} ({row},{col}) [snapshot {snapshot}, index {index}] closes a cycle with earlier pivots"))); break }
            piv_row_of_col.insert(col, row);
        }
    }

    if let Some((k, msg)) = bad {
        ctx.violation(&format!("C11/{tname}/{k}"), &msg, wit(json!({"pivots": pivs}), &log));
        return
    }
    ctx.count("parallel_tasks", tasks as i64);
    ctx.count("parallel_commits", commits.len() as i64);
    ctx.count("retries", retries as i64);
    ctx.count("stale_snapshot_commits", stale as i64);
    ctx.count(&format!("calls/{}threads", nthreads), 1);
    ctx.count(&format!("calls/{:?}", policy), 1);
    ctx.maxv("max_parallel_commits_per_call", commits.len() as i64);
    let order: Vec<(usize, usize)> = commits.iter().map(|c| (c.0, c.1)).collect();
    let mh = hash_of(&show_entries());
    if commits.len() >= 2 { ctx.distinct("commit_orders", hash_of(&(mh, &order))) }
    let class = format!("{tname}/{}", input.family);
    ctx.ok(&class, tasks >= 2, hash_of(&(mh, &order, format!("{:?}{:?}", ptype, cond))));
    if ctx.want_sample(&class) && commits.len() >= 2 {
        ctx.sample(&class, json!({"config": cfg, "pivots": pivs, "commit_order": order, "retries": retries, "stale_commits": stale}));
    }
}

pub fn run(ctx: &mut Ctx) {
    let n = ctx.by_tier(96_000u64, 1_000_000);
    ctx.random_cases("i64", n * 2, |c, r| case::<i64>(c, r));
    ctx.random_cases("Ratio<i64>", n, |c, r| case::<Ratio<i64>>(c, r));
    ctx.random_cases("FF<3>", n / 2, |c, r| case::<FF<3>>(c, r));
    ctx.random_cases("FF<5>", n / 2, |c, r| case::<FF<5>>(c, r));
    ctx.random_cases("Poly<H,i64>", n / 2, |c, r| case::<PH>(c, r));
}
