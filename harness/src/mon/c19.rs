// C19 — the involutive Khovanov complex is the mapping cone of 1 + tau and respects the symmetry.
// Oracle: own F2 cube of resolutions with the involution induced on states and circle labels by the
// edge involution e -> (n + 1 - e) mod n + 1; Cone(1 + tau) built explicitly; homology mod 2.

use std::collections::{BTreeMap, BTreeSet, HashMap};

use serde_json::json;
use yui::poly::Poly;
use yui::{EucRingOps, FF, FF2};
use yui_homology::{ChainComplexTrait, GridTrait, SummandTrait};
use yui_kh::kh::KhHomology;
use yui_kh::khi::internal::v2::builder::SymTngBuilder;
use yui_kh::khi::{ssi_invariants, KhIComplex, KhIHomology};
use yui_link::InvLink;

use crate::ctx::{guarded, hash_of, Ctx, Rng};
use crate::khx::*;
use crate::oracle::chain::SparseComplex;
use crate::oracle::link::PD;

const NAMES: [&str; 23] = ["3_1", "4_1", "5_1", "5_2a", "5_2b", "6_1a", "6_1b", "6_2a", "6_2b", "6_3", "7_1", "7_2a", "7_2b", "7_3a", "7_3b", "7_4a", "7_4b", "7_5a", "7_5b", "7_6a", "7_6b", "7_7a", "7_7b"];

fn code_of(name: &str) -> Vec<[usize; 4]> {
    InvLink::load(name).expect("built-in code").link().data().iter().map(|c| *c.edges()).collect()
}

/// Cone(1 + tau) of the F2 cube: dimension of homology per homological degree
fn cone_oracle(pd: &PD, h: i64, t: i64, reduced: bool) -> Result<BTreeMap<i64, usize>, String> {
    let n = pd.n();
    if n > 9 { return Err("too many crossings for the cone oracle".into()) }
    let ne = pd.edges().len();
    let tau_e = |e: usize| (ne + 1 - e) % ne + 1;
    // involution on crossings
    let tau_x: Vec<usize> = (0..n).map(|k| {
        let img: BTreeSet<usize> = pd.x[k].iter().map(|&e| tau_e(e)).collect();
        (0..n).find(|&j| pd.x[j].iter().cloned().collect::<BTreeSet<_>>() == img).ok_or("no image crossing")
    }).collect::<Result<_, _>>()?;
    let signs = pd.signs(0)?;
    let nm = signs.iter().filter(|&&s| s < 0).count() as i64;
    // generators: (state, assignment circle -> X?) with circles identified by their edge sets
    let nstates = 1usize << n;
    let mut circ: Vec<Vec<BTreeSet<usize>>> = vec![];
    for s in 0..nstates {
        let st: Vec<bool> = (0..n).map(|k| (s >> k) & 1 == 1).collect();
        let m = pd.circles(&st);
        let mut by: BTreeMap<usize, BTreeSet<usize>> = BTreeMap::new();
        for (e, c) in m { by.entry(c).or_default().insert(e); }
        circ.push(by.into_values().collect());
    }
    let base = if reduced { Some(1usize) } else { None };
    let mut index: HashMap<(usize, u64), (usize, usize)> = HashMap::new();
    let mut dims = vec![0usize; n + 1];
    for s in 0..nstates {
        let w = (s as u64).count_ones() as usize;
        let k = circ[s].len();
        let bp = base.map(|b| circ[s].iter().position(|c| c.contains(&b)).unwrap());
        for mask in 0..(1u64 << k) {
            if let Some(bp) = bp { if (mask >> bp) & 1 == 0 { continue } }
            index.insert((s, mask), (w, dims[w]));
            dims[w] += 1;
        }
    }
    // ordinary differential mod 2 (signs are irrelevant)
    let mut d: Vec<Vec<BTreeMap<usize, i64>>> = (0..=n).map(|i| vec![BTreeMap::new(); dims[i]]).collect();
    let (h2, t2) = (h.rem_euclid(2), t.rem_euclid(2));
    for s in 0..nstates {
        for kx in 0..n {
            if (s >> kx) & 1 == 1 { continue }
            let s2 = s | (1 << kx);
            let (c1, c2) = (&circ[s], &circ[s2]);
            let e = pd.x[kx];
            let touched1: BTreeSet<usize> = e.iter().map(|x| c1.iter().position(|c| c.contains(x)).unwrap()).collect();
            let touched2: BTreeSet<usize> = e.iter().map(|x| c2.iter().position(|c| c.contains(x)).unwrap()).collect();
            for mask in 0..(1u64 << c1.len()) {
                let Some(&(w, col)) = index.get(&(s, mask)) else { continue };
                let mut tb = 0u64;
                for (i, c) in c1.iter().enumerate() { if !touched1.contains(&i) && (mask >> i) & 1 == 1 { tb |= 1 << c2.iter().position(|x| x == c).unwrap() } }
                let mut outs: Vec<(u64, i64)> = vec![];
                if touched1.len() == 2 {
                    let (a, b): (usize, usize) = { let mut it = touched1.iter(); (*it.next().unwrap(), *it.next().unwrap()) };
                    let (xa, xb) = ((mask >> a) & 1 == 1, (mask >> b) & 1 == 1);
                    let c = *touched2.iter().next().unwrap();
                    match (xa, xb) { (false, false) => outs.push((tb, 1)), (true, true) => { outs.push((tb | (1 << c), h2)); outs.push((tb, t2)) } _ => outs.push((tb | (1 << c), 1)) }
                } else {
                    let a = *touched1.iter().next().unwrap();
                    let (c, dd): (usize, usize) = { let mut it = touched2.iter(); (*it.next().unwrap(), *it.next().unwrap()) };
                    if (mask >> a) & 1 == 0 { outs.push((tb | (1 << dd), 1)); outs.push((tb | (1 << c), 1)); outs.push((tb, h2)) }
                    else { outs.push((tb | (1 << c) | (1 << dd), 1)); outs.push((tb, t2)) }
                }
                for (m2, co) in outs {
                    if co == 0 { continue }
                    match index.get(&(s2, m2)) {
                        Some(&(_, row)) => { let e = d[w][col].entry(row).or_insert(0); *e = (*e + co) % 2; }
                        None => if !reduced { return Err("missing target".into()) } else { return Err("reduced subcomplex not closed".into()) },
                    }
                }
            }
        }
    }
    // tau on generators
    let mut tau: Vec<Vec<usize>> = (0..=n).map(|i| vec![0; dims[i]]).collect();
    for (&(s, mask), &(w, pos)) in &index {
        let mut s2 = 0usize;
        for k in 0..n { if (s >> k) & 1 == 1 { s2 |= 1 << tau_x[k] } }
        let mut m2 = 0u64;
        for (i, c) in circ[s].iter().enumerate() {
            if (mask >> i) & 1 == 1 {
                let img: BTreeSet<usize> = c.iter().map(|&e| tau_e(e)).collect();
                let j = circ[s2].iter().position(|x| *x == img).ok_or("tau does not map circles to circles")?;
                m2 |= 1 << j;
            }
        }
        let &(w2, p2) = index.get(&(s2, m2)).ok_or("tau leaves the complex")?;
        if w2 != w { return Err("tau changes the degree".into()) }
        tau[w][pos] = p2;
    }
    // cone: degree i = B C_i + Q C_{i-1}, i = 0..=n+1
    let cdims: Vec<usize> = (0..=n + 1).map(|i| (if i <= n { dims[i] } else { 0 }) + (if i >= 1 { dims[i - 1] } else { 0 })).collect();
    let mut cx = SparseComplex::new(cdims);
    for i in 0..=n {
        let off_q_here = dims[i];                 // Q-part offset in degree i (after B C_i)
        let off_q_next = if i + 1 <= n { dims[i + 1] } else { 0 };
        for a in 0..dims[i] {
            // d(Bx) = B dx + Q x + Q tau x
            for (&r, &v) in &d[i][a] { cx.add_entry(i, r, a, v) }
            cx.add_entry(i, off_q_next + a, a, 1);
            cx.add_entry(i, off_q_next + tau[i][a], a, 1);
        }
        let _ = off_q_here;
    }
    for i in 1..=n + 1 {
        // Q C_{i-1} sits in degree i after B C_i; d(Qx) = Q dx lands in degree i+1 after B C_{i+1}
        let off_here = if i <= n { dims[i] } else { 0 };
        let off_next = if i + 1 <= n { dims[i + 1] } else { 0 };
        if i - 1 < n { for a in 0..dims[i - 1] { for (&r, &v) in &d[i - 1][a] { cx.add_entry(i, off_next + r, off_here + a, v) } } }
    }
    // reduce entries mod 2 is done inside homology_fp
    let h = cx.homology_fp(2)?;
    Ok(h.into_iter().enumerate().filter(|x| x.1 > 0).map(|(i, r)| (i as i64 - nm, r)).collect())
}

/// user codes beyond the built-in table: the 9-crossing code of 9_46 used in the library's own documentation of the
/// symmetric numbering (the smallest example with s0 != s1)
const K9_46: [[usize; 4]; 9] = [[18,8,1,7],[13,6,14,7],[12,2,13,1],[8,18,9,17],[5,14,6,15],[2,12,3,11],[16,10,17,9],[15,4,16,5],[10,4,11,3]];

/// the same diagram numbered from the other fixed point of the involution: every label moved by half a turn; the
/// result is again a code in the symmetric numbering (e -> 2 - e mod n is preserved exactly by shifts of n/2)
fn rotate_half(code: &[[usize; 4]]) -> Vec<[usize; 4]> {
    let n = 2 * code.len();
    code.iter().map(|x| x.map(|e| (e - 1 + n / 2) % n + 1)).collect()
}

fn inv_from(code: &[[usize; 4]], mirror: bool) -> InvLink {
    let l = InvLink::sinv_knot_from_code(code.iter().cloned());
    if mirror { l.mirror() } else { l }
}

fn cone_case(ctx: &mut Ctx, rng: &mut Rng, idx: usize) {
    let name = NAMES[idx % NAMES.len()];
    let mut code = code_of(name);
    if code.len() > ctx.by_tier(7, 8) { return }
    if rng.chance(1, 4) { code = rotate_half(&code); ctx.count("user_codes_in_symmetric_numbering", 1) }
    if rng.chance(2, 3) { rng.shuffle(&mut code) }
    let mirror = rng.chance(1, 2);
    let (h, t) = *rng.choose(&[(0i64, 0i64), (1, 0), (0, 1), (1, 1)]);
    let reduced = t == 0 && rng.chance(1, 2);
    let mut pd = PD::new(code.clone());
    if mirror { pd = pd.mirror_flags() }
    let conf = json!({"knot": name, "mirror": mirror, "h": h, "t": t, "reduced": reduced, "code": code});
    let exp = match cone_oracle(&pd, h, t, reduced) { Ok(x) => x, Err(e) => { ctx.inconclusive("oracle_budget"); ctx.note(format!("cone oracle on {name}: {e}")); return } };
    let code2 = code.clone();
    let res = guarded(move || {
        let l = inv_from(&code2, mirror);
        let c = KhIComplex::<FF2>::new(&l, &FF2::from_i(h), &FF2::from_i(t), reduced);
        c.check_d_all();
        let hm = KhIHomology::from(&c);
        let ranks: BTreeMap<i64, usize> = hm.support().filter(|&i| hm[i].rank() > 0).map(|i| (i as i64, hm[i].rank())).collect();
        // the symmetric construction without the involutive part = ordinary Khovanov homology
        let ck = SymTngBuilder::build_kh_complex(&l, &FF2::from_i(h), &FF2::from_i(t), reduced);
        let sym = total_of(&KhHomology::from(&ck));
        let ord = kh_total::<FF2>(l.link(), h, t, reduced, &BuildCfg::default_cfg());
        (ranks, sym, ord)
    });
    match res {
        Ok((ranks, sym, ord)) => {
            if ranks != exp { ctx.violation("C19/cone", &format!("KhI ranks {:?} differ from the homology of Cone(1+tau) {:?}", ranks, exp), json!({"config": conf})); return }
            // reduced ordinary homology in the library uses the first edge of the first crossing as base point; for knots it does not matter
            if sym != ord { ctx.violation("C19/symmetric-build", &format!("symmetric build without the involutive part gives {:?}, ordinary Khovanov homology is {:?}", sym, ord), json!({"config": conf})); return }
            ctx.ok("cone", true, hash_of(&(&code, mirror, h, t, reduced)));
            if ctx.want_sample("cone") { ctx.sample("cone", json!({"config": conf, "khi_ranks": ranks})) }
        }
        Err(e) => ctx.violation("C19/panic", &format!("panicked (d^2 check or construction): {}", e.brief()), json!({"config": conf})),
    }
}

/// windowed computation through the public symmetric builder (`set_h_range`): inside the window the involutive
/// homology must be that of the full complex (which the cone oracle judges separately)
fn window_case(ctx: &mut Ctx, rng: &mut Rng, idx: usize) {
    let name = NAMES[idx % NAMES.len()];
    let mut code = code_of(name);
    if code.len() > ctx.by_tier(7, 8) { return }
    if rng.chance(1, 2) { rng.shuffle(&mut code) }
    let mirror = rng.chance(1, 2);
    let (h, t) = *rng.choose(&[(0i64, 0i64), (1, 0), (0, 1)]);
    let reduced = t == 0 && rng.chance(1, 2);
    let n = code.len() as isize;
    // the underlying Kh complex lives in [-n, n]; windows of width >= 4 somewhere in it (KhI[i] needs CKh[i-2..=i+1])
    let lo = rng.range(-(n as i64) - 1, (n as i64) - 3) as isize;
    let hi = rng.range((lo + 3) as i64, (n as i64) + 1) as isize;
    let conf = json!({"knot": name, "mirror": mirror, "h": h, "t": t, "reduced": reduced, "code": code, "h_range": [lo, hi]});
    let code2 = code.clone();
    let res = guarded(move || {
        let l = inv_from(&code2, mirror);
        let (hh, tt) = (FF2::from_i(h), FF2::from_i(t));
        let full = KhIHomology::from(&KhIComplex::<FF2>::new(&l, &hh, &tt, reduced));
        let mut b = SymTngBuilder::new(&l, &hh, &tt, reduced);
        if !(lo..=hi).contains(&0) { b.set_elements([]) } // canonical cycles live in degree 0
        b.set_h_range(lo..=hi);
        b.preprocess();
        b.process_all();
        b.finalize();
        let win = b.into_khi_complex().truncated(lo + 1..=hi).homology();
        let pick = |x: &KhIHomology<FF2>| -> Vec<(isize, usize)> { (lo + 2..=hi - 1).map(|i| (i, x[i].rank())).collect() };
        (pick(&full), pick(&win))
    });
    match res {
        Ok((full, win)) => {
            if full != win { ctx.violation("C19/window", &format!("involutive homology computed with set_h_range({lo}..={hi}) is {:?} inside the window, the full complex gives {:?}", win, full), json!({"config": conf})); return }
            ctx.ok("window", true, hash_of(&(&code, mirror, h, t, reduced, lo, hi)));
        }
        Err(e) => ctx.violation("C19/window-panic", &format!("windowed construction panicked: {}", e.brief()), json!({"config": conf})),
    }
}

type P2 = Poly<'H', FF<2>>;

fn poly_case(ctx: &mut Ctx, rng: &mut Rng, idx: usize) {
    // over F2[H]: d^2 = 0; necessary conditions from the cone at H = 1 and H = 0; ssi relations
    let k = idx % (NAMES.len() + 1);
    let (name, code) = if k == NAMES.len() { ("9_46 (user code)", K9_46.to_vec()) } else { (NAMES[k], code_of(NAMES[k])) };
    let rotated = rng.chance(1, 3);
    let code = if rotated { rotate_half(&code) } else { code };
    if k == NAMES.len() || rotated { ctx.count("user_codes_in_symmetric_numbering", 1) }
    let mut shuffled = code.clone();
    rng.shuffle(&mut shuffled);
    let reduced = rng.chance(1, 2);
    let with_cone = code.len() <= ctx.by_tier(7, 8);
    let conf = json!({"knot": name, "renumbered_from_the_other_fixed_point": rotated, "reduced": reduced, "shuffled_code": shuffled});
    let (c1, c2) = (code.clone(), shuffled.clone());
    let res = guarded(move || {
        let hh = P2::variable();
        let zero = P2::from_const(FF::<2>::new(0));
        let l = inv_from(&c1, false);
        let c = KhIComplex::<P2>::new(&l, &hh, &zero, reduced);
        c.check_d_all();
        let hm = KhIHomology::from(&c);
        let rt: BTreeMap<i64, (usize, usize)> = hm.support().map(|i| (i as i64, (hm[i].rank(), hm[i].tors().len()))).collect();
        let s = ssi_invariants(&l, &hh, reduced);
        let s_shuf = ssi_invariants(&inv_from(&c2, false), &hh, reduced);
        let s_mir = ssi_invariants(&inv_from(&c1, true), &hh, reduced);
        let s_other = ssi_invariants(&l, &hh, !reduced);
        (rt, s, s_shuf, s_mir, s_other)
    });
    let (rt, s, s_shuf, s_mir, s_other) = match res {
        Ok(x) => x,
        Err(e) => { ctx.violation("C19/poly/panic", &format!("panicked: {}", e.brief()), json!({"config": conf})); return }
    };
    let mut bad: Option<(&str, String)> = None;
    if s_shuf != s { bad = Some(("ssi-order", format!("ssi = {:?} but {:?} with the crossings listed in another order", s, s_shuf))) }
    else if s.0 > s.1 || (s.1 - s.0).rem_euclid(2) != 0 { bad = Some(("ssi-shape", format!("ssi = {:?} violates s0 <= s1, s0 = s1 mod 2", s))) }
    else if s_mir != (-s.1, -s.0) { bad = Some(("ssi-mirror", format!("ssi = {:?} but ssi(mirror) = {:?}, expected {:?}", s, s_mir, (-s.1, -s.0)))) }
    else if s_other != s { bad = Some(("ssi-reduced", format!("ssi = {:?} ({}) but {:?} for the other variant", s, if reduced { "reduced" } else { "unreduced" }, s_other))) }
    if bad.is_none() && with_cone {
        let pd = PD::new(code.clone());
        if let (Ok(c1), Ok(c0)) = (cone_oracle(&pd, 1, 0, reduced), cone_oracle(&pd, 0, 0, reduced)) {
            for (&i, &(r, _)) in &rt { if c1.get(&i).cloned().unwrap_or(0) != r { bad = Some(("poly-rank", format!("degree {i}: rank over F2[H] is {r} but Cone(1+tau) at H = 1 has dimension {}", c1.get(&i).cloned().unwrap_or(0)))); break } }
            if bad.is_none() { for (&i, &(r, tt)) in &rt {
                let tn = rt.get(&(i + 1)).map(|x| x.1).unwrap_or(0);
                if c0.get(&i).cloned().unwrap_or(0) != r + tt + tn { bad = Some(("poly-torsion", format!("degree {i}: rank {r} + torsion {tt} + next torsion {tn} != dimension {} of Cone(1+tau) at H = 0", c0.get(&i).cloned().unwrap_or(0)))); break }
            } }
        }
    }
    if let Some((k, msg)) = bad { ctx.violation(&format!("C19/{k}"), &msg, json!({"config": conf})); return }
    ctx.ok("F2[H]", true, hash_of(&(&shuffled, reduced)));
    if ctx.want_sample("F2[H]") { ctx.sample("F2[H]", json!({"config": conf, "ssi": [s.0, s.1]})) }
}

pub fn run(ctx: &mut Ctx) {
    let reps = ctx.by_tier(160u64, 8000);
    ctx.random_cases("cone", NAMES.len() as u64 * reps, |c, r| { let k = c.cur_idx() as usize; cone_case(c, r, k) });
    ctx.random_cases("window", NAMES.len() as u64 * reps / 2, |c, r| { let k = c.cur_idx() as usize; window_case(c, r, k) });
    let reps2 = ctx.by_tier(80u64, 3200);
    ctx.random_cases("poly", (NAMES.len() as u64 + 1) * reps2, |c, r| { let k = c.cur_idx() as usize; poly_case(c, r, k) });
    let _ = |x: &dyn Fn() -> bool| x();
    let _: Option<&dyn Fn(&FF2) -> bool> = None;
    let _ = <FF2 as KhRing>::rname;
    fn _unused<R: KhRing>() where for<'x> &'x R: EucRingOps<R> {}
}
