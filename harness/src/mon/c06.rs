// C06 — canonical (Lee) classes and the s-type invariant behave as knot invariants.
// (a) canonical cycles: count, h-degree 0, d z = 0, non-torsion for h != 0 (own rank computation modulo
//     a 31-bit prime on the exported matrices); (b) Lee / Bar-Natan homology free of rank 2^{#components};
// (c) ss: same for diagrams related by isotopy moves, reduced = unreduced, negated by mirroring,
//     crossing-change inequality, zero on kinked unknots.

use num_bigint::BigInt;
use num_traits::Zero;
use serde_json::json;
use yui::poly::Poly;
use yui::{EucRing, EucRingOps, Ratio, FF};
use yui_homology::{ChainComplexTrait, SummandTrait};
use yui_kh::kh::{ss_invariant, KhComplex};
use yui_link::Link;

use crate::ctx::{guarded, hash_of, Ctx, Rng};
use crate::diag::*;
use crate::khx::*;
use crate::mon::c01::pools;
use crate::oracle::link::{braid_closure, PD};

const P: i64 = 2147483647;

fn rank_mod_p(mut rows: Vec<Vec<i64>>) -> usize {
    let m = rows.len();
    let n = rows.first().map(|r| r.len()).unwrap_or(0);
    let inv = |a: i64| -> i64 { let (mut r, mut b, mut e) = (1i128, a.rem_euclid(P) as i128, (P - 2) as i128); while e > 0 { if e & 1 == 1 { r = r * b % P as i128 } b = b * b % P as i128; e >>= 1 } r as i64 };
    let (mut rank, mut col) = (0, 0);
    while rank < m && col < n {
        if let Some(piv) = (rank..m).find(|&i| rows[i][col].rem_euclid(P) != 0) {
            rows.swap(rank, piv);
            let iv = inv(rows[rank][col]);
            for j in col..n { rows[rank][j] = (rows[rank][j].rem_euclid(P) as i128 * iv as i128 % P as i128) as i64 }
            for i in 0..m { if i != rank { let f = rows[i][col].rem_euclid(P); if f != 0 { for j in col..n { rows[i][j] = ((rows[i][j] as i128 - f as i128 * rows[rank][j] as i128).rem_euclid(P as i128)) as i64 } } } }
            rank += 1;
        }
        col += 1;
    }
    rank
}

fn knot_diagram(ctx: &Ctx, rng: &mut Rng) -> (PD, String) { knot_diagram_min(ctx, rng, 3) }

fn knot_diagram_min(ctx: &Ctx, rng: &mut Rng, minc: usize) -> (PD, String) {
    let maxc = ctx.by_tier(10, 10);
    if minc > 3 { loop { let (name, p) = pick_table(rng, minc, maxc); if p.components().len() == 1 { return (p, format!("table {name}")) } } }
    loop {
        if rng.chance(1, 12) { let p = PD::new(vec![[1, 2, 2, 1]]); if rng.chance(1, 2) { return (p, "kinked unknot".into()) } if let Ok(q) = p.r1(1, rng.below(4)) { return (q, "two-kink unknot".into()) } }
        if rng.chance(1, 3) {
            let (n, w) = random_braid(rng, 4, maxc);
            if let Ok(p) = braid_closure(n, &w) { if p.components().len() == 1 { return (p, format!("closure {:?}", w)) } }
            continue
        }
        let (name, p) = pick_table(rng, 3, maxc);
        if p.components().len() == 1 { return (p, format!("table {name}")) }
    }
}

/// (a) canonical cycles over i64 with integer h
fn canon_case(ctx: &mut Ctx, rng: &mut Rng) {
    let (pd, origin) = knot_diagram(ctx, rng);
    let h = *rng.choose(&[0i64, 1, 2, 3, -1]);
    let reduced = rng.chance(1, 2);
    // reduced theory: half of the cases mark an arbitrary edge as base point through the public builder
    let base: Option<usize> = if reduced && rng.chance(1, 2) { Some(*rng.choose(&pd.edges())) } else { None };
    // a third of the cases compute only the window -1..=1 around degree 0 (what an s-invariant needs), with
    // set_h_range called before or after the crossings are absorbed
    let window: Option<bool> = if rng.chance(1, 3) { Some(rng.chance(1, 2)) } else { None };
    // a quarter of the plain cases go through the public builder with an explicit crossing order and with automatic
    // delooping / elimination switched off (the tracked cycles are then carried through `finalize`, and through a
    // deferred `eliminate_all` half of the time); without delooping or elimination the complex is the full cube, so n <= 7
    let sched: Option<(Vec<usize>, bool, bool, bool)> = if base.is_none() && window.is_none() && rng.chance(1, 4) {
        let mut order: Vec<usize> = (0..pd.n()).collect();
        for i in (1..order.len()).rev() { let j = rng.below(i + 1); order.swap(i, j) }
        let small = pd.n() <= 7;
        let auto_elim = !small || rng.chance(1, 2);
        let auto_deloop = !small || rng.chance(1, 2);
        Some((order, auto_deloop, auto_elim, !(auto_elim && auto_deloop) && rng.chance(1, 2)))
    } else { None };
    let conf = json!({"origin": origin, "h": h, "reduced": reduced, "explicit_base_point": base, "window_-1..=1_set_after_processing": window,
        "schedule(order,auto_deloop,auto_elim,eliminate_all_at_end)": sched});
    let wit = |extra: serde_json::Value| json!({"config": conf, "pd": pd.x, "detail": extra});
    let l = to_link(&pd);
    let sched2 = sched.clone();
    let res = guarded(move || {
        let c = match (base, window) {
            (None, None) if sched2.is_some() => {
                let (order, ad, ae, late) = sched2.clone().unwrap();
                let bp = if reduced { l.first_edge() } else { None };
                let mut b = yui_kh::kh::internal::v2::builder::TngComplexBuilder::<i64>::new(&l, &h, &0, bp);
                b.auto_deloop = ad; b.auto_elim = ae;
                let xs = l.data().clone();
                b.set_crossings(vec![]);
                for &k in &order { b.set_crossings([xs[k].clone()]); b.process_all(); }
                b.finalize();
                if late { b.eliminate_all() }
                b.into_kh_complex()
            }
            (None, None) => KhComplex::<i64>::new(&l, &h, &0, reduced),
            (b0, w) => {
                let bp = b0.or(if reduced { l.first_edge() } else { None });
                let mut b = yui_kh::kh::internal::v2::builder::TngComplexBuilder::<i64>::new(&l, &h, &0, bp);
                if w == Some(false) { b.set_h_range(-1..=1) }
                b.process_all();
                if w == Some(true) { b.set_h_range(-1..=1) }
                b.finalize();
                b.into_kh_complex()
            }
        };
        // with h != 0 (Bar-Natan) the homology in degree 0 of a knot has rank 2 (reduced: 1), window or not
        if h != 0 {
            let r0 = { use yui_homology::SummandTrait; yui_kh::kh::KhHomology::from(&c)[0].rank() };
            if r0 != if reduced { 1 } else { 2 } { panic!("C06-H0-rank-{r0}") }
        }
        let zs = c.canon_cycles().clone();
        let info: Vec<(bool, bool, bool, Vec<i64>)> = zs.iter().map(|z| {
            let nonzero = z.iter().any(|(_, a)| *a != 0);
            let deg0 = z.iter().all(|(x, _)| x.h_deg() == 0);
            let dz = c.d(0, z);
            let cyc = dz.iter().all(|(_, a)| *a == 0);
            let v = c[0].vectorize(z).to_dense();
            (nonzero, deg0, cyc, v)
        }).collect();
        let dm = c.d_matrix(-1);
        let rows: Vec<Vec<i64>> = { use yui_matrix::MatTrait; let (m, n) = dm.shape(); let mut r = vec![vec![0i64; n]; m]; for (i, j, a) in dm.iter() { r[i][j] += *a } r };
        (info, rows, c[0].rank())
    });
    let (info, rows, n0) = match res {
        Ok(x) => x,
        Err(e) => {
            if e.brief().contains("C06-H0-rank-") { ctx.violation("C06/canon/h0-rank", &format!("for h = {h} the homology in degree 0 does not have rank {} ({})", if reduced { 1 } else { 2 }, e.brief()), wit(json!(null))); return }
            if e.is_overflow() { ctx.inconclusive("overflow_machine_int") } else { ctx.violation("C06/canon/panic", &format!("panicked: {}", e.brief()), wit(json!(null))) } return
        }
    };
    let expect = if reduced { 1 } else { 2 };
    if info.len() != expect { ctx.violation("C06/canon/count", &format!("{} canonical cycles reported, expected {expect}", info.len()), wit(json!(null))); return }
    for (k, (nonzero, deg0, cyc, v)) in info.iter().enumerate() {
        // for h = 0 the class of the canonical cycle may legitimately vanish (e.g. on a kinked unknot); a zero
        // cycle is only a refutation when h != 0, where the class must be non-torsion
        if !nonzero && h != 0 { ctx.violation("C06/canon/zero", &format!("canonical cycle {k} is zero although h = {h} != 0"), wit(json!(null))); return }
        if !deg0 { ctx.violation("C06/canon/h-degree", &format!("canonical cycle {k} has generators outside homological degree 0"), wit(json!(null))); return }
        if !cyc { ctx.violation("C06/canon/not-cycle", &format!("d(z_{k}) != 0"), wit(json!(null))); return }
        if h != 0 {
            // [z] is non-torsion iff z is not in the rational span of the boundaries: rank [d_-1 | z] = rank d_-1 + 1
            if v.len() != n0 || rows.len() != n0 { ctx.violation("C06/canon/shape", "vectorised cycle and d_-1 have inconsistent sizes", wit(json!(null))); return }
            let r0 = rank_mod_p(rows.clone());
            let aug: Vec<Vec<i64>> = rows.iter().enumerate().map(|(i, r)| { let mut x = r.clone(); x.push(v[i]); x }).collect();
            let r1 = rank_mod_p(aug);
            if r1 != r0 + 1 { ctx.violation("C06/canon/torsion-class", &format!("for h = {h} the class of canonical cycle {k} is torsion (a multiple is a boundary)"), wit(json!(null))); return }
        }
    }
    if sched.is_some() { ctx.count("canonical_cycles_through_explicit_schedules", 1) }
    ctx.ok("canonical-cycles", pd.n() >= 3, hash_of(&(&pd.x, h, reduced, &sched)));
    if ctx.want_sample("canonical-cycles") { ctx.sample("canonical-cycles", conf.clone()) }
}

/// (a') canonical cycles over a general ring (h given, t = 0): count, degree, d z = 0
fn canon_generic<R>(ctx: &mut Ctx, rng: &mut Rng, rname: &str, h: R)
where R: yui::Ring + Send + Sync, for<'x> &'x R: yui::RingOps<R> {
    let (pd, origin) = if rng.chance(2, 3) { knot_diagram_min(ctx, rng, 8) } else { knot_diagram(ctx, rng) };
    let mirror = rng.chance(1, 2);
    let pd = if mirror { pd.mirror_flags() } else { pd };
    let reduced = rng.chance(1, 3);
    let conf = json!({"ring": rname, "origin": origin, "mirror": mirror, "h": format!("{}", h), "reduced": reduced});
    let wit = json!({"config": conf, "pd": pd.x, "switched": pd.neg});
    let l = to_link(&pd);
    let res = guarded(move || {
        let c = KhComplex::<R>::new(&l, &h, &R::zero(), reduced);
        c.canon_cycles().iter().map(|z| (z.iter().all(|(x, _)| x.h_deg() == 0), c.d(0, z).iter().all(|(_, a)| a.is_zero()))).collect::<Vec<_>>()
    });
    match res {
        Ok(info) => {
            let expect = if reduced { 1 } else { 2 };
            if info.len() != expect { ctx.violation(&format!("C06/canon/{rname}/count"), &format!("{} canonical cycles reported, expected {expect}", info.len()), wit); return }
            for (k, (deg0, cyc)) in info.iter().enumerate() {
                if !deg0 { ctx.violation(&format!("C06/canon/{rname}/h-degree"), &format!("canonical cycle {k} has generators outside homological degree 0"), wit); return }
                if !cyc { ctx.violation(&format!("C06/canon/{rname}/not-cycle"), &format!("d(z_{k}) != 0"), wit); return }
            }
            ctx.ok(&format!("canonical-cycles/{rname}"), pd.n() >= 3, hash_of(&(&pd.x, &pd.neg, reduced)));
        }
        Err(e) => { if e.is_overflow() { ctx.inconclusive("overflow_machine_int") } else { ctx.violation(&format!("C06/canon/{rname}/panic"), &format!("panicked: {}", e.brief()), wit) } }
    }
}

/// (b) Lee / Bar-Natan homology of links
fn lee_case(ctx: &mut Ctx, rng: &mut Rng) {
    let maxc = ctx.by_tier(9, 10);
    let (name, mut pd) = pick_table(rng, 2, maxc);
    let mut origin = format!("table {name}");
    if rng.chance(1, 4) { let (n2, o) = pick_table(rng, 2, 4); if pd.n() + o.n() <= maxc + 1 { pd = pd.disjoint_union(&o); origin += &format!(" ⊔ {n2}") } }
    if rng.chance(1, 4) { let k = rng.below(pd.n()); pd = pd.switch_crossing(k); origin += &format!(" switch{k}") }
    if pd.validate().is_err() || pd.n_free() > 0 { ctx.inconclusive("generator_invalid_diagram"); return }
    let comps = pd.components().len();
    let l = to_link(&pd);
    let res = guarded(move || (kh_total::<i64>(&l, 1, 0, false, &BuildCfg::default_cfg()), kh_total::<Ratio<i64>>(&l, 0, 1, false, &BuildCfg::default_cfg())));
    let wit = json!({"origin": origin, "pd": pd.x, "switched": pd.neg, "components": comps});
    match res {
        Ok((bn, lee)) => {
            let (rb, rl): (usize, usize) = (bn.values().map(|v| v.0).sum(), lee.values().map(|v| v.0).sum());
            if bn.values().any(|v| !v.1.is_empty()) || rb != 1 << comps { ctx.violation("C06/bar-natan-rank", &format!("homology with (h,t) = (1,0) over Z is {:?}: expected free of total rank 2^{comps}", bn), wit); return }
            if rl != 1 << comps { ctx.violation("C06/lee-rank", &format!("homology with (h,t) = (0,1) over Q has total rank {rl}, expected 2^{comps}"), wit); return }
            ctx.ok("lee-bar-natan", comps >= 2 || pd.n() >= 3, hash_of(&(&pd.x, &pd.neg)));
        }
        Err(e) => { if e.is_overflow() { ctx.inconclusive("overflow_machine_int") } else { ctx.violation("C06/lee/panic", &format!("panicked: {}", e.brief()), wit) } }
    }
}

/// (c) ss relations for one ring and one c
fn ss_case<R>(ctx: &mut Ctx, rng: &mut Rng, rname: &str, c: R)
where R: EucRing + Send + Sync, for<'x> &'x R: EucRingOps<R> {
    let (pd, origin) = knot_diagram(ctx, rng);
    if pd.validate().is_err() { ctx.inconclusive("generator_invalid_diagram"); return }
    let maxc = ctx.by_tier(11, 13);
    let nm = rng.urange(1, 4);
    let (pd2, log, _) = pd_moves(rng, &pd, nm, true, maxc);
    if pd2.validate().is_err() || pd.jones().ok() != pd2.jones().ok() { ctx.inconclusive("generator_move_changed_bracket"); return }
    let k = rng.below(pd.n());
    let signs = pd.signs(0).unwrap_or_default();
    let switched = pd.switch_crossing(k);
    let (l, l2, lsw) = (to_link(&pd), to_link(&pd2), to_link(&switched));
    let unknot = origin.contains("unknot");
    let pool = &pools()[&4];
    let cc = c.clone();
    let res = guarded(move || pool.install(move || {
        let f = |l: &Link, red: bool| ss_invariant(l, &cc, red);
        (f(&l, false), f(&l, true), f(&l.mirror(), false), f(&l2, false), f(&lsw, false))
    }));
    let wit = json!({"ring": rname, "c": format!("{}", c), "origin": origin, "pd": pd.x, "moved": pd2.x, "moves": log, "switched_crossing": k});
    let (s, sr, sm, s2, ssw) = match res {
        Ok(x) => x,
        Err(e) => { if e.is_overflow() && rname.contains("i64") { ctx.inconclusive("overflow_machine_int") } else { ctx.violation(&format!("C06/ss/{rname}/panic"), &format!("ss_invariant panicked: {}", e.brief()), wit) } return }
    };
    let mut bad: Option<(&str, String)> = None;
    if s != sr { bad = Some(("reduced-vs-unreduced", format!("ss = {s} (unreduced) but {sr} (reduced)"))) }
    else if sm != -s { bad = Some(("mirror", format!("ss = {s} but ss(mirror) = {sm}"))) }
    else if s2 != s { bad = Some(("not-invariant", format!("ss = {s} but {s2} after the moves {:?}", log))) }
    else if unknot && s != 0 { bad = Some(("unknot", format!("ss of an unknot diagram is {s}"))) }
    else {
        // crossing change: ss(K-) <= ss(K+) <= ss(K-) + 2
        let (kp, km) = if signs[k] > 0 { (s, ssw) } else { (ssw, s) };
        if !(km <= kp && kp <= km + 2) { bad = Some(("crossing-change", format!("crossing {k} (sign {}): ss(K+) = {kp}, ss(K-) = {km} violates ss(K-) <= ss(K+) <= ss(K-) + 2", signs[k]))) }
    }
    if let Some((key, msg)) = bad { ctx.violation(&format!("C06/ss/{rname}/{key}"), &msg, wit); return }
    let class = format!("ss/{rname}");
    ctx.ok(&class, pd.n() >= 3, hash_of(&(&pd.x, &pd2.x, k)));
    if ctx.want_sample(&class) { ctx.sample(&class, json!({"origin": origin, "ss": s, "ss_switched": ssw, "moves": log})) }
}

pub fn run(ctx: &mut Ctx) {
    let n = ctx.by_tier(2_000u64, 40_000);
    ctx.random_cases("canon", n * 2, |c, r| canon_case(c, r));
    ctx.random_cases("canon/Q[H]", n * 2, |c, r| canon_generic::<Poly<'H', Ratio<i64>>>(c, r, "Q[H]", Poly::variable()));
    ctx.random_cases("canon/F3[H]", n / 2, |c, r| canon_generic::<Poly<'H', FF<3>>>(c, r, "F3[H]", Poly::variable()));
    ctx.random_cases("canon/Q", n / 2, |c, r| canon_generic::<Ratio<i64>>(c, r, "Q,h=2", Ratio::from(2)));
    ctx.random_cases("canon/i128", n / 2, |c, r| canon_generic::<i128>(c, r, "i128,h=3", 3));
    ctx.random_cases("lee", n, |c, r| lee_case(c, r));
    ctx.random_cases("ss/i64/2", n / 2, |c, r| ss_case::<i64>(c, r, "i64,c=2", 2));
    ctx.random_cases("ss/i64/3", n / 2, |c, r| ss_case::<i64>(c, r, "i64,c=3", 3));
    ctx.random_cases("ss/BigInt/2", n / 4, |c, r| ss_case::<BigInt>(c, r, "BigInt,c=2", BigInt::from(2)));
    ctx.random_cases("ss/F2[H]", n / 2, |c, r| ss_case::<Poly<'H', FF<2>>>(c, r, "F2[H],c=H", Poly::variable()));
    ctx.random_cases("ss/F3[H]", n / 2, |c, r| ss_case::<Poly<'H', FF<3>>>(c, r, "F3[H],c=H", Poly::variable()));
    ctx.random_cases("ss/Q[H]", n / 4, |c, r| ss_case::<Poly<'H', Ratio<i64>>>(c, r, "Q[H],c=H", Poly::variable()));
    let _ = BigInt::zero();
    let _ = |s: &dyn Fn() -> usize| s();
}
