// C10 — LLL and LLL-based Hermite normal form return unimodular, reduced results.
// HNF: H = P A, P P^-1 = I, echelon shape, normalised pivots, entries above a pivot of smaller
// norm. LLL: B = P A, P unimodular, size-reduced and Lovasz by exact Gram-Schmidt over Q(sqrt D).
// Termination: logical step bound through the hook counters.

use std::sync::atomic::Ordering;

use num_bigint::BigInt;
use serde_json::json;
use yui::{EisenInt, GaussInt};
use yui_matrix::dense::lll::{lll, lll_hnf, LLLRing, LLLRingOps};
use yui_matrix::dense::Mat;

use crate::bridge::{Bridge, Mag};
use crate::ctx::{guarded, hash_of, Ctx, Rng};
use crate::matx::*;
use crate::mon::c09::gen_matrix;
use crate::oracle::gs::check_lll_reduced;
use crate::oracle::linalg::OMat;
use crate::oracle::num::*;
use crate::trace;

fn is_quad<T: Bridge>() -> bool { T::name().starts_with("QuadInt") }

fn hnf_case<T>(ctx: &mut Ctx, rng: &mut Rng, unbounded: bool)
where T: LLLRing + Bridge, for<'x> &'x T: LLLRingOps<T>, T::O: OEuc {
    let tname = T::name();
    let max_dim = ctx.by_tier(7, 10);
    let (ao, kind) = gen_matrix::<T>(ctx, rng, unbounded, max_dim);
    let flags = [rng.chance(2, 3), rng.chance(1, 2)];
    let Some(a) = o_to_mat::<T>(&ao) else { ctx.inconclusive("generator_unrepresentable"); return };
    let (m, n) = (ao.m, ao.n);
    let wit = |extra: serde_json::Value| json!({"type": tname, "routine": "lll_hnf", "kind": kind, "flags": flags, "A": ao.show(), "detail": extra});
    let bits = ao.max_bits().max(1);
    let bound = 1000 + 64 * (m as u64 + 1).pow(2) * (bits * (n as u64 + 1) + 16);
    trace::reset_steps();
    trace::set_step_limit(bound);
    let res = guarded(|| lll_hnf(&a, flags));
    trace::set_step_limit(u64::MAX);
    let steps = trace::STEPS_HNF.load(Ordering::SeqCst);
    ctx.maxv("lll_hnf_iterations_max", steps as i64);
    ctx.maxv("lll_hnf_iterations_permille_of_bound_max", (steps * 1000 / bound) as i64);
    let (h, p, pinv) = match res {
        Ok(r) => r,
        Err(e) => {
            if e.msg.contains(trace::STEP_BOUND_MSG) {
                ctx.violation(&format!("C10/{tname}/hnf/step-bound"), &format!("lll_hnf on a {m}x{n} {kind} matrix exceeded the logical bound of {bound} iterations"), wit(json!(null)));
            } else if !unbounded && e.is_overflow() { ctx.inconclusive("overflow_machine_int"); }
            else { ctx.violation(&format!("C10/{tname}/hnf/panic"), &format!("lll_hnf panicked on a {m}x{n} {kind} matrix: {}", e.brief()), wit(json!(null))); }
            return
        }
    };
    let ho = mat_to_o(&h);
    let po = p.as_ref().map(mat_to_o);
    let pio = pinv.as_ref().map(mat_to_o);
    let mut bad: Option<(String, String)> = None;
    macro_rules! fail { ($k:expr, $msg:expr) => { if bad.is_none() { bad = Some(($k.to_string(), $msg)) } }; }

    if (ho.m, ho.n) != (m, n) { fail!("shape", format!("H is {}x{}", ho.m, ho.n)) }
    if po.is_some() != flags[0] || pio.is_some() != flags[1] { fail!("flags", "returned transforms do not match the flags".into()) }
    if bad.is_none() {
        if let Some(p) = &po { if p.mul(&ao) != ho { fail!("h-pa", "H != P A".into()) } }
        if let (Some(p), Some(pi)) = (&po, &pio) { if !p.mul(pi).is_id() || !pi.mul(p).is_id() { fail!("p-pinv", "P P^-1 != I".into()) } }
        if let (None, Some(pi)) = (&po, &pio) { if pi.mul(&ho) != ao { fail!("pinv-h", "P^-1 H != A".into()) } }
        for (name, x) in [("P", &po), ("P^-1", &pio)] {
            if let Some(x) = x { if x.m <= 6 && x.max_bits() < 400 { let f = x.snf_diag(); if f.len() != x.m || f.iter().any(|y| !y.is_unit()) { fail!("unimodular", format!("{name} is not unimodular")) } } }
        }
    }
    if bad.is_none() {
        // echelon shape
        let lead: Vec<Option<usize>> = (0..m).map(|i| (0..n).find(|&j| !ho.at(i, j).is0())).collect();
        let mut seen_zero = false;
        let mut last: Option<usize> = None;
        for i in 0..m {
            match lead[i] {
                None => seen_zero = true,
                Some(j) => {
                    if seen_zero { fail!("zero-row-above", format!("row {i} is non-zero but a zero row lies above it")) }
                    if let Some(l) = last { if j <= l { fail!("echelon", format!("leading column of row {i} is {j}, not right of {l}")) } }
                    last = Some(j);
                    let piv = ho.at(i, j);
                    let lp = &h[(i, j)];
                    if lp.normalized() != *lp || (!is_quad::<T>() && !piv.is_normalized()) { fail!("pivot-not-normalized", format!("pivot H[{i}][{j}] = {} is not normalised", piv.show())) }
                    for k in 0..i {
                        let e = ho.at(k, j);
                        if !(e.size() < piv.size()) { fail!("above-pivot", format!("H[{k}][{j}] = {} above the pivot {} does not have strictly smaller norm", e.show(), piv.show())) }
                    }
                    // "zeros below each pivot" follows from the strictly increasing leading columns
                }
            }
        }
        let nzrows = lead.iter().filter(|x| x.is_some()).count();
        if bad.is_none() && ao.max_bits() < 600 {
            let r = ao.rank();
            if r != nzrows { fail!("rank", format!("H has {nzrows} non-zero rows but rank A = {r}")) }
            else if po.is_none() && pio.is_none() {
                // without transforms: same invariant factors at least
                let (f1, f2) = (ao.snf_diag(), ho.snf_diag());
                if f1.len() != f2.len() || f1.iter().zip(f2.iter()).any(|(x, y)| !x.associate(y)) { fail!("lattice", "H and A have different invariant factors".into()) }
            }
        }
    }
    if let Some((k, msg)) = bad {
        ctx.violation(&format!("C10/{tname}/hnf/{k}"), &msg, wit(json!({"H": ho.show(), "P": po.map(|x| x.show())})));
        return
    }
    let class = format!("{tname}/hnf/{kind}");
    ctx.ok(&class, m >= 2 && !ao.is_zero(), hash_of(&(ao.show(), flags)));
    if ctx.want_sample(&class) { ctx.sample(&class, json!({"A": ao.show(), "H": ho.show(), "iterations": steps})) }
}

fn lll_case<T, const D: i32>(ctx: &mut Ctx, rng: &mut Rng, unbounded: bool, embed: fn(&T::O) -> QI<D>, alpha: (i64, i64))
where T: LLLRing + Bridge, for<'x> &'x T: LLLRingOps<T>, T::O: OEuc {
    let tname = T::name();
    let max_n = ctx.by_tier(7, 8);
    let n = rng.urange(0, max_n);
    let m = if rng.chance(1, 12) { 0 } else { rng.urange(if n == 0 { 0 } else { 1 }, n) };
    let mag = if !unbounded { if rng.chance(2, 3) { Mag::Tiny } else { Mag::Small } }
        else { match rng.below(8) { 0..=2 => Mag::Tiny, 3..=4 => Mag::Small, 5 => Mag::Word, 6 => Mag::Boundary, _ => Mag::Big } };
    let dens = if rng.chance(1, 2) { 100 } else { 60 };
    let mut ao = rand_omat::<T>(rng, m, n, dens, mag);
    if rng.chance(1, 3) && m > 0 {
        // skewed basis of a nice lattice: unimodular mix of a near-diagonal matrix
        let (u, _) = rand_unimodular::<T>(rng, m, 3 * m, if unbounded { Mag::Small } else { Mag::Tiny });
        ao = u.mul(&ao);
    }
    // near-tie family (integers only, unbounded types): two or three rows whose Gram-Schmidt coefficient is a hair
    // beside k + 1/2 while the Gram determinants are around 2^40 .. 2^62 — the regime where any rounding shortcut
    // in the size reduction shows
    if unbounded && tname == "BigInt" && rng.chance(1, 6) {
        // a third of them sit where the Gram determinant is 2^52 + small: the mantissa boundary of f64
        let e = if rng.chance(1, 3) { 26 } else { rng.urange(20, 31) as i64 };
        let k = rng.range(-2, 2);
        let p2 = 1i64 << e;
        let s1 = rng.range(-2, 2); let s2 = rng.range(-2, 2);
        let (d1, d2) = (if rng.chance(2, 3) { 0 } else { rng.range(-1, 1) }, if rng.chance(2, 3) { 0 } else { rng.range(-1, 1) });
        let mut rows: Vec<Vec<i64>> = vec![vec![p2 + d1, s1, 0], vec![(2 * k + 1) * (p2 / 2) + d2, s2, p2]];
        if rng.chance(1, 2) { rows.push(vec![rng.range(-3, 3), p2 / 2 + rng.range(-1, 1), (2 * rng.range(-1, 1) + 1) * (p2 / 2)]) }
        let mm = rows.len();
        ao = OMat::<T::O>::from_fn(mm, 3, |i, j| T::O::from_i64(rows[i][j]));
        ctx.count("lll_near_tie_family", 1);
    }
    let (m, n) = (ao.m, ao.n);
    if ao.max_bits() < 800 && ao.rank() != m { ctx.count("lll_skipped_dependent_rows", 1); return }
    let with_trans = rng.chance(3, 4);
    let Some(a) = o_to_mat::<T>(&ao) else { ctx.inconclusive("generator_unrepresentable"); return };
    let wit = |extra: serde_json::Value| json!({"type": tname, "routine": "lll", "with_trans": with_trans, "A": ao.show(), "detail": extra});
    let bits = ao.max_bits().max(1);
    let bound = 1000 + 64 * (m as u64 + 1).pow(2) * (bits * (n as u64 + 1) + 16);
    trace::reset_steps();
    trace::set_step_limit(bound);
    let res = guarded(|| lll(&a, with_trans));
    trace::set_step_limit(u64::MAX);
    let steps = trace::STEPS_LLL.load(Ordering::SeqCst);
    ctx.maxv("lll_iterations_max", steps as i64);
    ctx.maxv("lll_iterations_permille_of_bound_max", (steps * 1000 / bound) as i64);
    let (b, p) = match res {
        Ok(r) => r,
        Err(e) => {
            if e.msg.contains(trace::STEP_BOUND_MSG) {
                ctx.violation(&format!("C10/{tname}/lll/step-bound"), &format!("lll on a {m}x{n} matrix exceeded the logical bound of {bound} iterations"), wit(json!(null)));
            } else if !unbounded && e.is_overflow() { ctx.inconclusive("overflow_machine_int"); }
            else { ctx.violation(&format!("C10/{tname}/lll/panic"), &format!("lll panicked on a {m}x{n} matrix with independent rows: {}", e.brief()), wit(json!(null))); }
            return
        }
    };
    let bo = mat_to_o(&b);
    let po = p.as_ref().map(mat_to_o);
    let mut bad: Option<(String, String)> = None;
    macro_rules! fail { ($k:expr, $msg:expr) => { if bad.is_none() { bad = Some(($k.to_string(), $msg)) } }; }
    if (bo.m, bo.n) != (m, n) { fail!("shape", format!("B is {}x{}", bo.m, bo.n)) }
    if po.is_some() != with_trans { fail!("flags", "transform presence does not match the flag".into()) }
    if bad.is_none() {
        if let Some(p) = &po {
            if p.mul(&ao) != bo { fail!("b-pa", "B != P A".into()) }
            else if p.max_bits() < 600 { let f = p.snf_diag(); if f.len() != m || f.iter().any(|y| !y.is_unit()) { fail!("unimodular", "P is not unimodular (N(det P) != 1)".into()) } }
        } else if ao.max_bits() < 400 {
            let (f1, f2) = (ao.snf_diag(), bo.snf_diag());
            if f1.len() != f2.len() || f1.iter().zip(f2.iter()).any(|(x, y)| !x.associate(y)) { fail!("lattice", "B and A have different invariant factors".into()) }
        }
    }
    if bad.is_none() && m > 0 {
        let e = OMat::<QI<D>> { m, n, d: bo.d.iter().map(embed).collect() };
        if let Err(msg) = check_lll_reduced(&e, &Q::new(z(alpha.0), z(alpha.1))) { fail!("not-reduced", msg) }
    }
    if let Some((k, msg)) = bad {
        ctx.violation(&format!("C10/{tname}/lll/{k}"), &msg, wit(json!({"B": bo.show(), "P": po.map(|x| x.show())})));
        return
    }
    let class = format!("{tname}/lll");
    ctx.ok(&class, m >= 2 && bo != ao, hash_of(&ao.show()));
    if ctx.want_sample(&class) { ctx.sample(&class, json!({"A": ao.show(), "B": bo.show(), "iterations": steps})) }
}

fn z_embed(a: &Z) -> QI<-1> { QI(a.clone(), z(0)) }
fn id_embed<const D: i32>(a: &QI<D>) -> QI<D> { a.clone() }

pub fn run(ctx: &mut Ctx) {
    let n = ctx.by_tier(4_000u64, 500_000);
    macro_rules! hnf { ($t:ty, $unb:expr) => { ctx.random_cases(&format!("{}/hnf", <$t as Bridge>::name()), n, |c, r| hnf_case::<$t>(c, r, $unb)); }; }
    hnf!(BigInt, true);
    hnf!(i64, false);
    hnf!(i128, false);
    hnf!(GaussInt<BigInt>, true);
    hnf!(EisenInt<BigInt>, true);
    hnf!(GaussInt<i64>, false);
    hnf!(EisenInt<i64>, false);
    ctx.random_cases("BigInt/lll", n, |c, r| lll_case::<BigInt, -1>(c, r, true, z_embed, (3, 4)));
    ctx.random_cases("i64/lll", n, |c, r| lll_case::<i64, -1>(c, r, false, z_embed, (3, 4)));
    ctx.random_cases("i128/lll", n, |c, r| lll_case::<i128, -1>(c, r, false, z_embed, (3, 4)));
    ctx.random_cases("GaussInt<BigInt>/lll", n, |c, r| lll_case::<GaussInt<BigInt>, -1>(c, r, true, id_embed::<-1>, (3, 4)));
    ctx.random_cases("EisenInt<BigInt>/lll", n, |c, r| lll_case::<EisenInt<BigInt>, -3>(c, r, true, id_embed::<-3>, (2, 3)));
    ctx.random_cases("GaussInt<i64>/lll", n, |c, r| lll_case::<GaussInt<i64>, -1>(c, r, false, id_embed::<-1>, (3, 4)));
    ctx.random_cases("EisenInt<i64>/lll", n, |c, r| lll_case::<EisenInt<i64>, -3>(c, r, false, id_embed::<-3>, (2, 3)));
    let _ = Mat::<i64>::zero((0, 0));
}
