// Shared run context: seeded PRNG, case scheduling / sharding / replay, verdict
// collection and the JSON protocol spoken to the python driver.
//
// Protocol (stdout, one JSON object per line):
//   {"t":"violation", key, what, kind, idx, case_seed, witness}   -- flushed at once
//   {"t":"trailer", ...statistics...}                              -- last line
// Everything else (progress, diagnostics) goes to stderr.

use std::collections::{BTreeMap, HashSet};
use std::hash::{Hash, Hasher};
use std::io::Write;
use std::panic::{catch_unwind, AssertUnwindSafe};
use std::sync::Mutex;
use std::time::Instant;

use serde_json::{json, Value};

#[derive(Clone, Copy, PartialEq, Eq, Debug)]
pub enum Tier { Quick, Thorough }

// ---------------------------------------------------------------- PRNG

#[derive(Clone)]
pub struct Rng { s: [u64; 4] }

fn splitmix(x: &mut u64) -> u64 {
    *x = x.wrapping_add(0x9E3779B97F4A7C15);
    let mut z = *x;
    z = (z ^ (z >> 30)).wrapping_mul(0xBF58476D1CE4E5B9);
    z = (z ^ (z >> 27)).wrapping_mul(0x94D049BB133111EB);
    z ^ (z >> 31)
}

impl Rng {
    pub fn new(seed: u64) -> Self {
        let mut x = seed;
        let s = [splitmix(&mut x), splitmix(&mut x), splitmix(&mut x), splitmix(&mut x)];
        Rng { s }
    }
    pub fn next_u64(&mut self) -> u64 {
        // xoshiro256**
        let r = self.s[1].wrapping_mul(5).rotate_left(7).wrapping_mul(9);
        let t = self.s[1] << 17;
        self.s[2] ^= self.s[0];
        self.s[3] ^= self.s[1];
        self.s[1] ^= self.s[2];
        self.s[0] ^= self.s[3];
        self.s[2] ^= t;
        self.s[3] = self.s[3].rotate_left(45);
        r
    }
    /// uniform in 0..n (n > 0)
    pub fn below(&mut self, n: usize) -> usize {
        assert!(n > 0);
        (self.next_u64() % (n as u64)) as usize
    }
    /// uniform in lo..=hi
    pub fn range(&mut self, lo: i64, hi: i64) -> i64 {
        assert!(lo <= hi);
        let span = (hi as i128 - lo as i128 + 1) as u128;
        let r = (self.next_u64() as u128) % span;
        (lo as i128 + r as i128) as i64
    }
    pub fn urange(&mut self, lo: usize, hi: usize) -> usize {
        self.range(lo as i64, hi as i64) as usize
    }
    /// true with probability num/den
    pub fn chance(&mut self, num: usize, den: usize) -> bool {
        self.below(den) < num
    }
    pub fn choose<'a, T>(&mut self, xs: &'a [T]) -> &'a T {
        &xs[self.below(xs.len())]
    }
    pub fn shuffle<T>(&mut self, xs: &mut [T]) {
        for i in (1..xs.len()).rev() {
            let j = self.below(i + 1);
            xs.swap(i, j);
        }
    }
    pub fn perm(&mut self, n: usize) -> Vec<usize> {
        let mut p: Vec<usize> = (0..n).collect();
        self.shuffle(&mut p);
        p
    }
    pub fn fork(&mut self) -> Rng {
        Rng::new(self.next_u64())
    }
}

pub fn hash_of<T: Hash>(t: &T) -> u64 {
    #[allow(deprecated)]
    let mut h = std::hash::SipHasher::new();
    t.hash(&mut h);
    h.finish()
}

pub fn hash_str(s: &str) -> u64 { hash_of(&s) }

// ---------------------------------------------------------------- panics

#[derive(Clone, Debug, Default)]
pub struct PanicRec { pub msg: String, pub loc: String }

impl PanicRec {
    pub fn is_overflow(&self) -> bool {
        self.msg.contains("overflow")
    }
    pub fn in_repo(&self) -> bool {
        self.loc.contains("/repo/") || self.loc.starts_with("yui")
    }
    pub fn brief(&self) -> String {
        let m: String = self.msg.chars().take(160).collect();
        format!("{} @ {}", m, self.loc)
    }
    /// source file name + message prefix: stable enough for a finding key
    pub fn site(&self) -> String {
        let f = self.loc.rsplit('/').next().unwrap_or("").split(':').next().unwrap_or("");
        f.to_string()
    }
}

static LAST_PANIC: Mutex<Option<PanicRec>> = Mutex::new(None);

pub fn install_panic_hook() {
    std::panic::set_hook(Box::new(|info| {
        let msg = if let Some(s) = info.payload().downcast_ref::<&str>() {
            s.to_string()
        } else if let Some(s) = info.payload().downcast_ref::<String>() {
            s.clone()
        } else {
            "<non-string panic>".to_string()
        };
        let loc = info.location().map(|l| format!("{}:{}", l.file(), l.line())).unwrap_or_default();
        let mut g = LAST_PANIC.lock().unwrap_or_else(|e| e.into_inner());
        // keep the FIRST panic of a guarded section (rayon re-panics in the caller)
        if g.is_none() {
            *g = Some(PanicRec { msg, loc });
        }
    }));
}

/// Run `f`, converting a panic into Err(record). Panic output is suppressed.
pub fn guarded<T>(f: impl FnOnce() -> T) -> Result<T, PanicRec> {
    {
        let mut g = LAST_PANIC.lock().unwrap_or_else(|e| e.into_inner());
        *g = None;
    }
    match catch_unwind(AssertUnwindSafe(f)) {
        Ok(t) => Ok(t),
        Err(_) => {
            let mut g = LAST_PANIC.lock().unwrap_or_else(|e| e.into_inner());
            Err(g.take().unwrap_or_default())
        }
    }
}

// ---------------------------------------------------------------- in-process watchdog
//
// Quiescence test for "never deadlocks": a case that has been running for `quiet_after_s` while every
// other thread of the process is sleeping and no CPU time is consumed over two samples 2 s apart is a
// deadlock (violation, with the case identity for replay). A case that is still burning CPU after
// `case_timeout_s` is abandoned as inconclusive. Wall-clock alone never yields a violation.

use std::sync::atomic::{AtomicU64, Ordering as AO};

static CASE_START_MS: AtomicU64 = AtomicU64::new(0);
static EXTERNAL_WAIT: AtomicU64 = AtomicU64::new(0);

/// Run `f`, which waits for another process (the old engine, the ykh binary). While it runs the quiescence
/// test is suspended: this process sleeping is then no evidence of a deadlock in the library. The caller
/// bounds the wait itself and reports an overrun as inconclusive.
pub fn external<T>(f: impl FnOnce() -> T) -> T {
    struct G;
    impl Drop for G { fn drop(&mut self) { EXTERNAL_WAIT.fetch_sub(1, AO::SeqCst); } }
    EXTERNAL_WAIT.fetch_add(1, AO::SeqCst);
    let _g = G;
    f()
}
static CASE_INFO: Mutex<Option<(String, String, u64, u64, String)>> = Mutex::new(None); // prop, kind, idx, seed, tier

fn now_ms() -> u64 { std::time::SystemTime::now().duration_since(std::time::UNIX_EPOCH).map(|d| d.as_millis() as u64).unwrap_or(0) }

fn thread_sample(skip_tid: i64) -> Vec<(i64, char, u64)> {
    let mut v = vec![];
    if let Ok(rd) = std::fs::read_dir("/proc/self/task") {
        for e in rd.flatten() {
            let tid: i64 = e.file_name().to_string_lossy().parse().unwrap_or(-1);
            if tid == skip_tid { continue }
            if let Ok(st) = std::fs::read_to_string(e.path().join("stat")) {
                if let Some(rest) = st.rsplit(')').next() {
                    let f: Vec<&str> = rest.split_whitespace().collect();
                    if f.len() > 13 {
                        let state = f[0].chars().next().unwrap_or('?');
                        let cpu = f[11].parse::<u64>().unwrap_or(0) + f[12].parse::<u64>().unwrap_or(0);
                        v.push((tid, state, cpu));
                    }
                }
            }
        }
    }
    v.sort();
    v
}

pub fn spawn_watchdog(quiet_after_s: u64, case_timeout_s: u64) {
    std::thread::spawn(move || {
        let my_tid: i64 = std::fs::read_link("/proc/thread-self").ok().and_then(|p| p.file_name().map(|f| f.to_string_lossy().parse().unwrap_or(-1))).unwrap_or(-1);
        loop {
            std::thread::sleep(std::time::Duration::from_millis(1000));
            let st = CASE_START_MS.load(AO::SeqCst);
            if st == 0 { continue }
            let run_s = now_ms().saturating_sub(st) / 1000;
            if run_s < quiet_after_s { continue }
            let a = thread_sample(my_tid);
            std::thread::sleep(std::time::Duration::from_millis(2000));
            if CASE_START_MS.load(AO::SeqCst) != st { continue } // the case finished meanwhile
            let b = thread_sample(my_tid);
            let quiet = !a.is_empty() && a.len() == b.len() && a.iter().zip(b.iter()).all(|(x, y)| x.0 == y.0 && x.2 == y.2 && x.1 == 'S' && y.1 == 'S');
            let info = CASE_INFO.lock().unwrap_or_else(|e| e.into_inner()).clone();
            let Some((prop, kind, idx, seed, tier)) = info else { continue };
            if quiet && EXTERNAL_WAIT.load(AO::SeqCst) == 0 {
                let line = json!({"t": "violation", "property": prop, "key": format!("{prop}/deadlock"),
                    "what": format!("the call has not returned after {run_s} s: all {} threads are sleeping and no CPU time was consumed over 2 s (quiescent: deadlock)", a.len()),
                    "kind": kind, "idx": idx, "case_seed": seed.to_string(), "tier": tier,
                    "witness": {"thread_states": b.iter().map(|x| format!("{}:{}", x.0, x.1)).collect::<Vec<_>>()}});
                println!("{}", line);
                println!("{}", json!({"t": "abort", "reason": "deadlock", "case": format!("{kind}#{idx}")}));
                let _ = std::io::stdout().flush();
                std::process::exit(0);
            } else if run_s >= case_timeout_s {
                println!("{}", json!({"t": "abort", "reason": "case_timeout", "case": format!("{kind}#{idx}"), "case_seed": seed.to_string(), "ran_s": run_s}));
                let _ = std::io::stdout().flush();
                std::process::exit(0);
            }
        }
    });
}

// ---------------------------------------------------------------- context

pub struct Ctx {
    pub prop: String,
    pub tier: Tier,
    pub seed: u64,
    pub shard: usize,
    pub nshards: usize,
    pub budget_s: f64,
    pub replay: Option<(String, u64, u64)>, // kind, idx, case_seed
    replay_done: bool,
    start: Instant,
    /// the thorough tier runs the monitor in several rounds, each taking the next slice of every random
    /// workload, so that the time budget is spread over all workloads instead of being used up by the first
    pub round: u64,
    pub rounds: u64,
    kind_time: BTreeMap<String, f64>,
    in_random: bool,

    // current case
    cur_kind: String,
    cur_idx: u64,
    cur_seed: u64,

    evals: u64,
    classes: BTreeMap<String, u64>,
    nt_hashes: HashSet<u64>,
    nt_evals: u64,
    samples: BTreeMap<String, Vec<Value>>,
    counters: BTreeMap<String, i64>,
    maxima: BTreeMap<String, i64>,
    sets: BTreeMap<String, HashSet<u64>>,
    inconclusive: BTreeMap<String, u64>,
    viol_count: u64,
    viol_keys: BTreeMap<String, u64>,
    budget_exhausted: bool,
    notes: Vec<String>,
    last_checkpoint: f64,
}

impl Ctx {
    pub fn new(prop: &str, tier: Tier, seed: u64, shard: usize, nshards: usize, budget_s: f64) -> Self {
        Ctx {
            prop: prop.to_string(), tier, seed, shard, nshards, budget_s,
            replay: None, replay_done: false, start: Instant::now(), round: 0, rounds: 1, kind_time: BTreeMap::new(), in_random: false,
            cur_kind: String::new(), cur_idx: 0, cur_seed: 0,
            evals: 0, classes: BTreeMap::new(), nt_hashes: HashSet::new(), nt_evals: 0,
            samples: BTreeMap::new(), counters: BTreeMap::new(), maxima: BTreeMap::new(),
            sets: BTreeMap::new(), inconclusive: BTreeMap::new(), viol_count: 0,
            viol_keys: BTreeMap::new(), budget_exhausted: false, notes: vec![], last_checkpoint: 0.0,
        }
    }

    pub fn quick(&self) -> bool { self.tier == Tier::Quick }
    pub fn thorough(&self) -> bool { self.tier == Tier::Thorough }
    /// pick by tier
    pub fn by_tier<T>(&self, q: T, t: T) -> T { if self.quick() { q } else { t } }

    pub fn elapsed(&self) -> f64 { self.start.elapsed().as_secs_f64() }
    pub fn time_left(&self) -> bool { self.elapsed() < self.budget_s }

    pub fn case_seed(&self, kind: &str, idx: u64) -> u64 {
        hash_of(&(self.seed, self.prop.as_str(), kind, idx))
    }

    fn mine(&self, idx: u64) -> bool {
        (idx as usize) % self.nshards == self.shard
    }

    /// Run one case identified by (kind, idx). Handles sharding, replay and
    /// escaping panics (counted as inconclusive "harness_panic", never a verdict).
    pub fn case<F>(&mut self, kind: &str, idx: u64, f: F)
    where F: FnOnce(&mut Ctx, &mut Rng) {
        let seed;
        if let Some((k, i, s)) = &self.replay {
            if self.replay_done || k != kind || *i != idx { return }
            seed = *s;
            self.replay_done = true;
        } else {
            if !self.mine(idx) { return }
            if self.round > 0 && !self.in_random { return } // fixed sweeps run in the first round only
            if !self.in_random && self.elapsed() > 1.5 * self.budget_s { self.budget_exhausted = true; self.count("fixed_sweep_cases_skipped_after_time_budget", 1); return }
            seed = self.case_seed(kind, idx);
        }
        self.cur_kind = kind.to_string();
        self.cur_idx = idx;
        self.cur_seed = seed;
        let mut rng = Rng::new(seed);
        *CASE_INFO.lock().unwrap_or_else(|e| e.into_inner()) = Some((self.prop.clone(), kind.to_string(), idx, seed, if self.quick() { "quick".into() } else { "thorough".into() }));
        CASE_START_MS.store(now_ms().max(1), AO::SeqCst);
        let r = {
            let me: &mut Ctx = self;
            guarded(move || f(me, &mut rng))
        };
        CASE_START_MS.store(0, AO::SeqCst);
        if self.replay.is_none() && self.elapsed() - self.last_checkpoint > 5.0 {
            self.last_checkpoint = self.elapsed();
            self.emit_stats("checkpoint", false);
        }
        if let Err(p) = r {
            self.inconclusive(&format!("harness_panic:{}", p.site()));
            if self.notes.len() < 20 {
                self.notes.push(format!("escaped panic in case {kind}#{idx}: {}", p.brief()));
            }
        }
    }

    /// n_total seeded random cases of one kind, spread over the shards; stops at
    /// the soft time budget (recorded, not a verdict).
    pub fn random_cases<F>(&mut self, kind: &str, n_total: u64, mut f: F)
    where F: FnMut(&mut Ctx, &mut Rng) {
        if let Ok(only) = std::env::var("VH_ONLY") { if !kind.contains(&only) { return } } // debugging aid
        let t0 = self.elapsed();
        let (lo, hi) = self.slice(n_total);
        self.in_random = true;
        for idx in lo..hi {
            if self.replay.is_none() {
                if !self.mine(idx) { continue }
                if !self.time_left() { self.budget_exhausted = true; break }
            }
            self.case(kind, idx, |c, r| f(c, r));
            if self.replay_done { break }
        }
        self.in_random = false;
        let dt = self.elapsed() - t0;
        self.count(&format!("ms_spent/{kind}"), (dt * 1000.0) as i64);
    }

    /// the slice of 0..n_total that belongs to the current round (everything when replaying)
    fn slice(&self, n_total: u64) -> (u64, u64) {
        if self.replay.is_some() || self.rounds <= 1 { return (0, n_total) }
        let (n, r, k) = (n_total as u128, self.round as u128, self.rounds as u128);
        ((n * r / k) as u64, (n * (r + 1) / k) as u64)
    }

    /// like `random_cases`, but this kind may use at most `share` of the time budget (so that a slow
    /// second-opinion workload cannot starve the others)
    pub fn random_cases_share<F>(&mut self, kind: &str, n_total: u64, share: f64, mut f: F)
    where F: FnMut(&mut Ctx, &mut Rng) {
        if let Ok(only) = std::env::var("VH_ONLY") { if !kind.contains(&only) { return } }
        let t0 = self.elapsed();
        let used0 = self.kind_time.get(kind).cloned().unwrap_or(0.0);
        let (lo, hi) = self.slice(n_total);
        self.in_random = true;
        for idx in lo..hi {
            if self.replay.is_none() {
                if !self.mine(idx) { continue }
                if !self.time_left() { self.budget_exhausted = true; break }
                if used0 + self.elapsed() - t0 > share * self.budget_s { self.count(&format!("time_share_used_up/{kind}"), 1); break }
            }
            self.case(kind, idx, |c, r| f(c, r));
            if self.replay_done { break }
        }
        self.in_random = false;
        let dt = self.elapsed() - t0;
        *self.kind_time.entry(kind.to_string()).or_insert(0.0) += dt;
        self.count(&format!("ms_spent/{kind}"), (dt * 1000.0) as i64);
    }

    pub fn replaying(&self) -> bool { self.replay.is_some() }
    pub fn cur_idx(&self) -> u64 { self.cur_idx }

    // ---- recording

    /// one evaluated case (or sub-case) that passed
    pub fn ok(&mut self, class: &str, nontrivial: bool, hash: u64) {
        self.evals += 1;
        *self.classes.entry(class.to_string()).or_insert(0) += 1;
        if nontrivial {
            self.nt_evals += 1;
            self.nt_hashes.insert(hash_of(&(class, hash)));
        }
    }

    pub fn want_sample(&self, class: &str) -> bool {
        self.samples.get(class).map(|v| v.len()).unwrap_or(0) < 2 && self.samples.len() < 24
    }

    pub fn sample(&mut self, class: &str, v: Value) {
        if self.want_sample(class) {
            self.samples.entry(class.to_string()).or_default().push(v);
        }
    }

    pub fn count(&mut self, name: &str, n: i64) {
        *self.counters.entry(name.to_string()).or_insert(0) += n;
    }

    pub fn maxv(&mut self, name: &str, n: i64) {
        let e = self.maxima.entry(name.to_string()).or_insert(i64::MIN);
        if n > *e { *e = n }
    }

    /// count distinct values of something (e.g. commit orders)
    pub fn distinct(&mut self, name: &str, h: u64) {
        self.sets.entry(name.to_string()).or_default().insert(h);
    }

    pub fn inconclusive(&mut self, reason: &str) {
        *self.inconclusive.entry(reason.to_string()).or_insert(0) += 1;
    }

    pub fn note(&mut self, s: String) {
        if self.notes.len() < 40 { self.notes.push(s) }
    }

    /// a refutation of the property on a concrete execution
    pub fn violation(&mut self, key: &str, what: &str, witness: Value) {
        self.evals += 1;
        self.viol_count += 1;
        let n = self.viol_keys.entry(key.to_string()).or_insert(0);
        *n += 1;
        if *n <= 2 && self.viol_keys.len() <= 400 {
            let line = json!({
                "t": "violation", "property": self.prop, "key": key, "what": what,
                "kind": self.cur_kind, "idx": self.cur_idx, "case_seed": self.cur_seed.to_string(),
                "tier": if self.quick() { "quick" } else { "thorough" },
                "witness": witness,
            });
            let out = std::io::stdout();
            let mut o = out.lock();
            let _ = writeln!(o, "{}", line);
            let _ = o.flush();
        }
    }

    pub fn finish(&mut self) { self.emit_stats("trailer", true) }

    /// statistics line; "checkpoint" lines (every ~5 s) let the driver keep the counts of a shard that is
    /// later killed by the watchdog, and tell it which case was running.
    fn emit_stats(&mut self, kind: &str, with_hashes: bool) {
        let sets: BTreeMap<String, usize> = self.sets.iter().map(|(k, v)| (k.clone(), v.len())).collect();
        // what the hooks inside the library saw while this shard ran (totals; the library's parallel kernels are
        // reached by many monitors through homology / reduction / Khovanov computations)
        let h = crate::trace::hook_totals();
        for (k, v) in [("hook_events/parallel_pivot_commits", h[0]), ("hook_events/parallel_pivot_commits_on_stale_snapshot", h[1]), ("hook_events/pivot_retries", h[2]),
                       ("hook_events/solver_columns_started", h[3]), ("hook_events/union_find_pair_visits", h[4])] {
            if v > 0 { self.counters.insert(k.to_string(), v as i64); }
        }
        let mut hashes: Vec<String> = if with_hashes { self.nt_hashes.iter().take(400_000).map(|h| format!("{:x}", h)).collect() } else { vec![] };
        hashes.sort();
        let line = json!({
            "t": kind, "nt_count": self.nt_hashes.len(),
            "last_case": format!("{}#{}", self.cur_kind, self.cur_idx), "property": self.prop, "shard": self.shard, "nshards": self.nshards,
            "evaluations": self.evals, "nontrivial_evaluations": self.nt_evals,
            "nt_hashes": hashes,
            "classes": self.classes, "samples": self.samples, "counters": self.counters,
            "maxima": self.maxima, "distinct": sets, "inconclusive": self.inconclusive,
            "violations": self.viol_count, "violation_keys": self.viol_keys,
            "budget_exhausted": self.budget_exhausted, "wall_s": self.elapsed(),
            "notes": self.notes, "replayed": self.replay_done,
        });
        let out = std::io::stdout();
        let mut o = out.lock();
        let _ = writeln!(o, "{}", line);
        let _ = o.flush();
    }
}
