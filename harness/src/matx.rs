// Conversions between library matrices and oracle matrices, and matrix generators
// (generators work on the oracle side; the library value is obtained by conversion).

use yui::{Ring, RingOps};
use yui_matrix::dense::Mat;
use yui_matrix::sparse::{SpMat, SpVec};
use yui_matrix::MatTrait;

use crate::bridge::{Bridge, Mag};
use crate::ctx::Rng;
use crate::oracle::linalg::OMat;
use crate::oracle::num::*;

pub fn mat_to_o<T>(a: &Mat<T>) -> OMat<T::O>
where T: Bridge {
    let (m, n) = a.shape();
    OMat::from_fn(m, n, |i, j| a[(i, j)].to_o())
}

pub fn o_to_mat<T>(o: &OMat<T::O>) -> Option<Mat<T>>
where T: Ring + Bridge, for<'x> &'x T: RingOps<T> {
    let mut d = Vec::with_capacity(o.m * o.n);
    for x in &o.d { d.push(T::try_from_o(x)?) }
    Some(Mat::from_data((o.m, o.n), d))
}

pub fn sp_to_o<T>(a: &SpMat<T>) -> OMat<T::O>
where T: Bridge {
    let (m, n) = a.shape();
    let mut o: OMat<T::O> = OMat::zero(m, n);
    for (i, j, x) in a.iter() {
        let v = o.at(i, j).add(&x.to_o());
        o.set(i, j, v);
    }
    o
}

pub fn o_to_sp<T>(o: &OMat<T::O>) -> Option<SpMat<T>>
where T: Ring + Bridge, for<'x> &'x T: RingOps<T> {
    let mut e = vec![];
    for i in 0..o.m { for j in 0..o.n {
        let x = o.at(i, j);
        if !x.is0() { e.push((i, j, T::try_from_o(x)?)) }
    } }
    Some(SpMat::from_entries((o.m, o.n), e))
}

pub fn spvec_to_o<T>(v: &SpVec<T>) -> Vec<T::O>
where T: Ring + Bridge, for<'x> &'x T: RingOps<T> {
    let mut o = vec![T::O::o0(); v.dim()];
    for (i, x) in v.iter() { o[i] = o[i].add(&x.to_o()) }
    o
}

/// sparse matrix with explicitly stored zeros at the given positions (through the public From<CscMatrix>)
pub fn o_to_sp_with_stored_zeros<T>(o: &OMat<T::O>, zeros: &[(usize, usize)]) -> Option<SpMat<T>>
where T: Ring + Bridge, for<'x> &'x T: RingOps<T> {
    use nalgebra_sparse::{CooMatrix, CscMatrix};
    // build the pattern with a placeholder one at "stored zero" positions, then overwrite the values
    let mut coo = CooMatrix::new(o.m, o.n);
    let mut pos = std::collections::BTreeSet::new();
    for i in 0..o.m { for j in 0..o.n { if !o.at(i, j).is0() { pos.insert((j, i)); } } }
    for &(i, j) in zeros { if i < o.m && j < o.n && o.at(i, j).is0() { pos.insert((j, i)); } }
    for &(j, i) in &pos { coo.push(i, j, T::one()) }
    let csc = CscMatrix::from(&coo);
    let (offs, idx, _vals) = csc.disassemble();
    let mut vals = Vec::with_capacity(idx.len());
    for j in 0..o.n { for k in offs[j]..offs[j + 1] { vals.push(T::try_from_o(o.at(idx[k], j))?) } }
    let csc = CscMatrix::try_from_csc_data(o.m, o.n, offs, idx, vals).ok()?;
    Some(SpMat::from(csc))
}

// ------------------------------------------------------------ generators

pub fn rand_omat<T: Bridge>(rng: &mut Rng, m: usize, n: usize, density_pct: usize, mag: Mag) -> OMat<T::O> {
    OMat::from_fn(m, n, |_, _| if rng.below(100) < density_pct { T::gen(rng, mag) } else { T::O::o0() })
}

/// random unimodular matrix with its exact inverse, built from elementary operations
pub fn rand_unimodular<T>(rng: &mut Rng, n: usize, steps: usize, mag: Mag) -> (OMat<T::O>, OMat<T::O>)
where T: Bridge, T::O: OEuc {
    let mut u = OMat::<T::O>::id(n);
    let mut v = OMat::<T::O>::id(n);
    if n == 0 { return (u, v) }
    let units = T::O::unit_samples();
    for _ in 0..steps {
        match rng.below(6) {
            0 if n >= 2 => {
                let (i, j) = (rng.below(n), rng.below(n));
                u.swap_rows(i, j);
                v.swap_cols(i, j);
            }
            1 => {
                // scale row i by a unit
                let i = rng.below(n);
                let w = rng.choose(&units).clone();
                let winv = T::O::o1().divrem(&w).0;
                for k in 0..n { let x = u.at(i, k).mul(&w); u.set(i, k, x) }
                for k in 0..n { let x = v.at(k, i).mul(&winv); v.set(k, i, x) }
            }
            _ if n >= 2 => {
                let i = rng.below(n);
                let mut j = rng.below(n);
                if i == j { j = (j + 1) % n }
                let c = T::gen(rng, mag);
                u.add_row(i, j, &c);          // row_j += c row_i
                v.add_col(j, i, &c.neg());    // col_i -= c col_j
            }
            _ => {}
        }
    }
    (u, v)
}

/// A = U * diag(d) * V with the planted (not necessarily chained) diagonal
pub fn planted<T>(rng: &mut Rng, m: usize, n: usize, diag: &[T::O], mix: usize, mag: Mag) -> OMat<T::O>
where T: Bridge, T::O: OEuc {
    let (u, _) = rand_unimodular::<T>(rng, m, mix, mag);
    let (v, _) = rand_unimodular::<T>(rng, n, mix, mag);
    let mut d = OMat::<T::O>::zero(m, n);
    for (i, x) in diag.iter().enumerate() { if i < m.min(n) { d.set(i, i, x.clone()) } }
    u.mul(&d).mul(&v)
}

// ------------------------------------------------------------ planted chain complexes

/// A chain complex C_0 -> C_1 -> ... -> C_L with known homology: d_i = P_{i+1}^-1 E_i P_i where E_i carries
/// the diagonal D_i in rows 0..r_i and columns n_i - r_i .. n_i and r_{i-1} + r_i <= n_i.
pub struct PlantedComplex<O> {
    pub dims: Vec<usize>,
    pub ranks: Vec<usize>,        // rank of d_i, i in 0..L
    pub diags: Vec<Vec<O>>,       // planted diagonal of d_i (non-zero entries, not chained)
    pub d: Vec<OMat<O>>,          // d_i : n_{i+1} x n_i
}

pub fn planted_complex<T>(rng: &mut Rng, len: usize, max_dim: usize, mag: Mag, torsion_pct: usize, mix: usize, palette: &[T::O]) -> PlantedComplex<T::O>
where T: Bridge, T::O: OEuc {
    let dims: Vec<usize> = (0..=len).map(|_| if rng.chance(1, 10) { 0 } else { rng.urange(0, max_dim) }).collect();
    let mut ranks = vec![0usize; len];
    for i in 0..len {
        let used = if i > 0 { ranks[i - 1] } else { 0 };
        let cap = (dims[i] - used.min(dims[i])).min(dims[i + 1]);
        ranks[i] = if cap == 0 { 0 } else { rng.urange(0, cap) };
    }
    let units = T::O::unit_samples();
    let mut diags = vec![];
    let mut d = vec![];
    let bases: Vec<(OMat<T::O>, OMat<T::O>)> = dims.iter().map(|&n| { let st = if mix == 0 { 0 } else { rng.urange(0, mix * n.max(1)) }; rand_unimodular::<T>(rng, n, st, mag) }).collect();
    for i in 0..len {
        let (n0, n1, r) = (dims[i], dims[i + 1], ranks[i]);
        let mut e = OMat::<T::O>::zero(n1, n0);
        let mut diag = vec![];
        for k in 0..r {
            let x = if rng.below(100) < torsion_pct && !palette.is_empty() { rng.choose(palette).clone() } else { rng.choose(&units).clone() };
            e.set(k, n0 - r + k, x.clone());
            diag.push(x);
        }
        diags.push(diag);
        // d_i = P_{i+1}^-1 E_i P_i
        d.push(bases[i + 1].1.mul(&e).mul(&bases[i].0));
    }
    PlantedComplex { dims, ranks, diags, d }
}
