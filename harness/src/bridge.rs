// Bridge between library scalar types and the oracle's own number types,
// plus boundary-biased value generators (working on the oracle side).

use num_bigint::{BigInt, Sign};
use num_traits::{One, Signed, ToPrimitive, Zero};
use std::fmt::Debug;

use yui::poly::{Mono, Poly};
use yui::{EucRing, EucRingOps, Field, FieldOps, Integer, IntOps, QuadInt, Ratio, Ring, RingOps, FF, FF2};

use crate::ctx::Rng;
use crate::oracle::num::*;

pub trait Bridge: Sized + Clone + Debug + PartialEq {
    type O: ORing;
    fn name() -> String;
    fn to_o(&self) -> Self::O;
    /// None when the oracle value is not representable in this library type
    fn try_from_o(o: &Self::O) -> Option<Self>;
    fn from_o(o: &Self::O) -> Self { Self::try_from_o(o).expect("value not representable") }
    /// machine-integer based: results may legitimately be unrepresentable
    fn bounded() -> bool { false }
    /// random oracle value representable in this type; `mag` in bits is a hint for unbounded types
    fn gen(rng: &mut Rng, mag: Mag) -> Self::O;
    /// Some(description) if the stored representation is not the canonical one
    fn canon_err(&self) -> Option<String> { None }
    /// For composite machine-integer types: Some(true) if the operation (0 add, 1 sub, 2 mul) on a, b lies in the
    /// *minimum exactness domain* — every intermediate of the schoolbook algorithm that cancels common factors
    /// first (rationals: common denominator = lcm; products cross-reduced) is representable — so that a panic
    /// there is not an unavoidable intermediate overflow. None: no such rule for this type.
    fn in_min_exact_domain(_op: u8, _a: &Self::O, _b: &Self::O) -> Option<bool> { None }
}

#[derive(Clone, Copy, PartialEq, Eq, Debug)]
pub enum Mag { Tiny, Small, Word, Boundary, Big, Huge }

impl Mag {
    pub fn pick(rng: &mut Rng) -> Mag {
        match rng.below(12) {
            0..=2 => Mag::Tiny,
            3..=5 => Mag::Small,
            6..=7 => Mag::Word,
            8..=9 => Mag::Boundary,
            10 => Mag::Big,
            _ => Mag::Huge,
        }
    }
    pub fn pick_small(rng: &mut Rng) -> Mag {
        match rng.below(6) { 0..=2 => Mag::Tiny, 3..=4 => Mag::Small, _ => Mag::Word }
    }
}

pub fn rand_bits(rng: &mut Rng, bits: usize) -> Z {
    if bits == 0 { return Z::zero() }
    let nd = (bits + 31) / 32;
    let mut d: Vec<u32> = (0..nd).map(|_| rng.next_u64() as u32).collect();
    let top = bits % 32;
    if top != 0 { let l = d.len() - 1; d[l] &= (1u32 << top) - 1; d[l] |= 1u32 << (top - 1) } else { let l = d.len() - 1; d[l] |= 1 << 31 }
    BigInt::new(Sign::Plus, d)
}

/// boundary-biased integer with |x| < 2^maxbits
pub fn gen_z(rng: &mut Rng, mag: Mag, maxbits: usize) -> Z {
    let sign = if rng.chance(1, 2) { z(1) } else { z(-1) };
    let pow2 = |k: usize| Z::one() << k;
    let v: Z = match mag {
        Mag::Tiny => return z(rng.range(-3, 3)),
        Mag::Small => return z(rng.range(-40, 40)),
        Mag::Word => z(rng.range(-(1 << 31), 1 << 31)),
        Mag::Boundary => {
            let ks = [31usize, 32, 52, 53, 54, 62, 63, 64, 126, 127, 128];
            let k = *rng.choose(&ks);
            pow2(k) + z(rng.range(-2, 2))
        }
        Mag::Big => { let b = rng.urange(64, 200); rand_bits(rng, b) }
        Mag::Huge => { let b = rng.urange(200, 2000); rand_bits(rng, b) }
    };
    let v = v * sign;
    if maxbits == usize::MAX { return v }
    // clamp into the representable range by reducing
    let lim = pow2(maxbits);
    if v.abs() < lim { v } else {
        let k = rng.below(6);
        match k { 0 => &lim - z(1), 1 => -(&lim - z(1)), 2 => -&lim + z(1) - z(rng.range(0, 3)) + z(3), _ => (v % &lim) }
    }
}

macro_rules! impl_int {
    ($t:ty, $bits:expr, $conv:ident) => {
        impl Bridge for $t {
            type O = Z;
            fn name() -> String { stringify!($t).to_string() }
            fn to_o(&self) -> Z { Z::from(*self) }
            fn try_from_o(o: &Z) -> Option<Self> { o.$conv() }
            fn bounded() -> bool { true }
            fn gen(rng: &mut Rng, mag: Mag) -> Z { gen_z(rng, mag, $bits) }
        }
    };
}
impl_int!(i32, 31, to_i32);
impl_int!(i64, 63, to_i64);
impl_int!(i128, 127, to_i128);

impl Bridge for BigInt {
    type O = Z;
    fn name() -> String { "BigInt".into() }
    fn to_o(&self) -> Z { self.clone() }
    fn try_from_o(o: &Z) -> Option<Self> { Some(o.clone()) }
    fn gen(rng: &mut Rng, mag: Mag) -> Z { gen_z(rng, mag, usize::MAX) }
}

impl<I> Bridge for Ratio<I>
where I: Integer + Bridge<O = Z>, for<'x> &'x I: IntOps<I> {
    type O = Q;
    fn name() -> String { format!("Ratio<{}>", I::name()) }
    fn to_o(&self) -> Q {
        // field by field: the library's representation must already be canonical; Q::new re-normalises,
        // canonicity itself is checked separately by the C14 monitor.
        Q::new(self.numer().to_o(), self.denom().to_o())
    }
    fn try_from_o(o: &Q) -> Option<Self> {
        let n = I::try_from_o(&o.n)?;
        let d = I::try_from_o(&o.d)?;
        Some(Ratio::new(n, d))
    }
    fn bounded() -> bool { I::bounded() }
    fn in_min_exact_domain(op: u8, a: &Q, b: &Q) -> Option<bool> {
        if !I::bounded() { return None }
        // symmetric range: the value and its negative (so also its absolute value, needed by any gcd) are representable
        let fits = |x: &Z| I::try_from_o(x).is_some() && I::try_from_o(&(-x)).is_some();
        match op {
            0 | 1 => {
                let g = <Z as crate::oracle::num::OEuc>::gcd(&a.d, &b.d);
                let l = &(&a.d / &g) * &b.d;
                let x = &a.n * &(&l / &a.d);
                let y = &b.n * &(&l / &b.d);
                let sum = if op == 0 { &x + &y } else { &x - &y };
                Some(fits(&l) && fits(&x) && fits(&y) && fits(&sum))
            }
            _ => None,
        }
    }
    fn canon_err(&self) -> Option<String> {
        let (n, d) = (self.numer().to_o(), self.denom().to_o());
        if d.is_zero() { return Some("zero denominator".into()) }
        let q = Q::new(n.clone(), d.clone());
        if q.n != n || q.d != d { Some(format!("stored {}/{} but lowest terms with positive denominator is {}/{}", n, d, q.n, q.d)) } else { None }
    }
    fn gen(rng: &mut Rng, mag: Mag) -> Q {
        let n = I::gen(rng, mag);
        let dm = if rng.chance(1, 3) { Mag::Tiny } else { mag };
        let mut d = I::gen(rng, dm);
        if d.is_zero() { d = z(1) }
        let q = Q::new(n, d);
        // lowest terms may still overflow nothing: components only shrink
        q
    }
}

macro_rules! impl_ff {
    ($p:literal) => {
        impl Bridge for FF<$p> {
            type O = Fp<$p>;
            fn name() -> String { format!("FF<{}>", $p) }
            fn to_o(&self) -> Fp<$p> { Fp::<$p>::new(*self.rep() as i128) }
            fn try_from_o(o: &Fp<$p>) -> Option<Self> { Some(FF::<$p>::new(o.0 as i32)) }
            fn canon_err(&self) -> Option<String> {
                let r = *self.rep() as i64;
                if r < 0 || r >= $p { Some(format!("representative {} outside [0,{})", r, $p)) } else { None }
            }
            fn gen(rng: &mut Rng, _mag: Mag) -> Fp<$p> {
                match rng.below(6) { 0 => Fp(0), 1 => Fp(1 % $p), 2 => Fp($p - 1), 3 => Fp(($p - 1) / 2 + 1), _ => Fp(rng.next_u64() % $p) }
            }
        }
    };
}
impl_ff!(2);
impl_ff!(3);
impl_ff!(5);
impl_ff!(7);
impl_ff!(32749);
impl_ff!(46337);
impl_ff!(65537);
impl_ff!(2147483647);

impl Bridge for FF2 {
    type O = Fp<2>;
    fn name() -> String { "FF2".into() }
    fn to_o(&self) -> Fp<2> { if self.is_zero() { Fp(0) } else { Fp(1) } }
    fn try_from_o(o: &Fp<2>) -> Option<Self> { Some(FF2::from(o.0 as i64)) }
    fn gen(rng: &mut Rng, _mag: Mag) -> Fp<2> { Fp(rng.next_u64() % 2) }
}

macro_rules! impl_quad {
    ($d:literal) => {
        impl<I> Bridge for QuadInt<I, $d>
        where I: Integer + Bridge<O = Z>, for<'x> &'x I: IntOps<I> {
            type O = QI<$d>;
            fn name() -> String { format!("QuadInt<{},{}>", I::name(), $d) }
            fn to_o(&self) -> QI<$d> { QI(self.left().to_o(), self.right().to_o()) }
            fn try_from_o(o: &QI<$d>) -> Option<Self> { Some(QuadInt::new(I::try_from_o(&o.0)?, I::try_from_o(&o.1)?)) }
            fn bounded() -> bool { I::bounded() }
            /// schoolbook arithmetic on (a + b w), w^2 = p + q w: sums componentwise; product x = ac + bd p,
            /// y = ad + bc + bd q. Inside the domain where the four partial products, bd p and the partial sums are
            /// representable (symmetric range) an overflow is not an unavoidable intermediate overflow.
            fn in_min_exact_domain(op: u8, a: &QI<$d>, b: &QI<$d>) -> Option<bool> {
                if !I::bounded() { return None }
                let fits = |x: &Z| I::try_from_o(x).is_some() && I::try_from_o(&(-x)).is_some();
                let (p, q): (i64, i64) = if ($d as i32).rem_euclid(4) == 1 { ((($d as i32 - 1) / 4) as i64, 1) } else { ($d as i64, 0) };
                match op {
                    0 => Some(fits(&(&a.0 + &b.0)) && fits(&(&a.1 + &b.1))),
                    1 => Some(fits(&(&a.0 - &b.0)) && fits(&(&a.1 - &b.1))),
                    2 => {
                        let (ac, bd, ad, bc) = (&a.0 * &b.0, &a.1 * &b.1, &a.0 * &b.1, &a.1 * &b.0);
                        let bdp = &bd * z(p);
                        let x = &ac + &bdp;
                        let s = &ad + &bc;
                        let y = &s + &bd * z(q);
                        Some([&ac, &bd, &ad, &bc, &bdp, &x, &s, &y].iter().all(|v| fits(v)))
                    }
                    _ => None,
                }
            }
            fn gen(rng: &mut Rng, mag: Mag) -> QI<$d> {
                let a = I::gen(rng, mag);
                let b = if rng.chance(1, 5) { z(0) } else { I::gen(rng, mag) };
                if rng.chance(1, 8) { QI(b, a) } else { QI(a, b) }
            }
        }
    };
}
impl_quad!(-1);
impl_quad!(-3);
impl_quad!(2);
impl_quad!(-2);
impl_quad!(5);
impl_quad!(-7);

// Univariate polynomials: implemented per coefficient type (a blanket impl over `K: Field` would
// collide with the integer-coefficient impl below).
macro_rules! impl_poly_bridge {
    ($k:ty) => {
        impl<const X: char> Bridge for Poly<X, $k> {
            type O = OPoly<<$k as Bridge>::O>;
            fn name() -> String { format!("Poly<{}>", <$k as Bridge>::name()) }
            fn to_o(&self) -> Self::O {
                let d = self.iter().map(|(x, _)| x.deg()).max().unwrap_or(0);
                let mut c = vec![<$k as Bridge>::O::o0(); d + 1];
                for (x, r) in self.iter() { c[x.deg()] = c[x.deg()].add(&r.to_o()) }
                OPoly::new(c)
            }
            fn try_from_o(o: &Self::O) -> Option<Self> {
                let mut terms = vec![];
                for (i, c) in o.0.iter().enumerate() {
                    if c.is0() { continue }
                    terms.push((Poly::<X, $k>::mono(i), <$k as Bridge>::try_from_o(c)?));
                }
                Some(Poly::from_iter(terms))
            }
            fn bounded() -> bool { <$k as Bridge>::bounded() }
            fn gen(rng: &mut Rng, mag: Mag) -> Self::O {
                let deg = match mag { Mag::Tiny => rng.below(2), Mag::Small => rng.below(4), _ => rng.below(7) };
                let cm = match mag { Mag::Tiny | Mag::Small => Mag::Tiny, _ => Mag::Small };
                let mut c: Vec<<$k as Bridge>::O> = (0..=deg).map(|_| if rng.chance(1, 3) { <$k as Bridge>::O::o0() } else { <$k as Bridge>::gen(rng, cm) }).collect();
                if rng.chance(1, 4) { let l = c.len() - 1; c[l] = <$k as Bridge>::O::o1() }
                OPoly::new(c)
            }
        }
    };
}
impl_poly_bridge!(Ratio<i64>);
impl_poly_bridge!(Ratio<BigInt>);
impl_poly_bridge!(FF<2>);
impl_poly_bridge!(FF<3>);
impl_poly_bridge!(FF<5>);
impl_poly_bridge!(FF<7>);
impl_poly_bridge!(FF2);
// integer coefficients (Z[H], not Euclidean): the model is OPoly<Z>, used with ring operations only
impl_poly_bridge!(i64);
impl_poly_bridge!(BigInt);

/// helper bounds used all over the monitors
pub trait LibRing: Ring + Bridge where for<'x> &'x Self: RingOps<Self> {}
impl<T> LibRing for T where T: Ring + Bridge, for<'x> &'x T: RingOps<T> {}

pub trait LibEuc: EucRing + Bridge where for<'x> &'x Self: EucRingOps<Self> {}
impl<T> LibEuc for T where T: EucRing + Bridge, for<'x> &'x T: EucRingOps<T> {}

#[allow(dead_code)]
pub fn is_neg(zv: &Z) -> bool { zv.is_negative() }

// homogeneous (single-term) polynomials c x^d over a field; model: coefficient vector with one entry
impl<const X: char, K> Bridge for yui::poly::HPoly<X, K>
where K: Field + Bridge, for<'x> &'x K: FieldOps<K>, K::O: OEuc {
    type O = OPoly<K::O>;
    fn name() -> String { format!("HPoly<{}>", K::name()) }
    fn to_o(&self) -> Self::O {
        let c = self.coeff().to_o();
        if c.is0() { return OPoly::o0() }
        let mut v = vec![K::O::o0(); self.deg() + 1];
        v[self.deg()] = c;
        OPoly::new(v)
    }
    fn try_from_o(o: &Self::O) -> Option<Self> {
        let nz: Vec<usize> = o.0.iter().enumerate().filter(|(_, c)| !c.is0()).map(|(i, _)| i).collect();
        match nz.len() {
            0 => Some(yui::poly::HPoly::new(0, K::try_from_o(&K::O::o0())?)),
            1 => Some(yui::poly::HPoly::new(nz[0], K::try_from_o(&o.0[nz[0]])?)),
            _ => None,
        }
    }
    fn bounded() -> bool { K::bounded() }
    fn gen(rng: &mut Rng, mag: Mag) -> Self::O {
        let deg = match mag { Mag::Tiny => rng.below(2), Mag::Small => rng.below(4), _ => rng.below(9) };
        let c = if rng.chance(1, 8) { K::O::o0() } else { K::gen(rng, Mag::Small) };
        if c.is0() { return OPoly::o0() }
        let mut v = vec![K::O::o0(); deg + 1];
        v[deg] = c;
        OPoly::new(v)
    }
}
