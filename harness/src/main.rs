// vh — verification harness for taketo1024/yui (runtime monitors + reference models).
//
//   vh <property> --tier quick|thorough --seed N --shard k --nshards K --budget-s S
//   vh <property> --tier T --replay-kind KIND --replay-idx I --replay-seed S
//   vh selftest

mod bridge;
mod ctx;
mod diag;
mod khx;
mod mon;
mod oracle;
mod trace;
mod matx;

use ctx::{Ctx, Tier};

fn main() {
    let args: Vec<String> = std::env::args().collect();
    if args.len() < 2 {
        eprintln!("usage: vh <property|selftest> [options]");
        std::process::exit(2);
    }
    let prop = args[1].to_uppercase();
    let mut tier = Tier::Quick;
    let mut seed = 0u64;
    let mut shard = 0usize;
    let mut nshards = 1usize;
    let mut budget = 1e9f64;
    let mut rk: Option<String> = None;
    let mut ri = 0u64;
    let mut rs = 0u64;
    let mut i = 2;
    while i < args.len() {
        let v = args.get(i + 1).cloned().unwrap_or_default();
        match args[i].as_str() {
            "--tier" => { tier = if v == "thorough" { Tier::Thorough } else { Tier::Quick }; i += 1 }
            "--seed" => { seed = v.parse().expect("seed"); i += 1 }
            "--shard" => { shard = v.parse().expect("shard"); i += 1 }
            "--nshards" => { nshards = v.parse().expect("nshards"); i += 1 }
            "--budget-s" => { budget = v.parse().expect("budget"); i += 1 }
            "--replay-kind" => { rk = Some(v); i += 1 }
            "--replay-idx" => { ri = v.parse().expect("idx"); i += 1 }
            "--replay-seed" => { rs = v.parse().expect("case seed"); i += 1 }
            other => { eprintln!("unknown option {other}"); std::process::exit(2) }
        }
        i += 1;
    }

    ctx::install_panic_hook();
    trace::install();

    if prop == "SELFTEST" {
        let ok = oracle::selftest();
        std::process::exit(if ok { 0 } else { 3 });
    }

    let mut c = Ctx::new(&prop, tier, seed, shard, nshards, budget);
    if let Some(k) = rk {
        let rs = if rs == 0 { c.case_seed(&k, ri) } else { rs }; // replay by (seed, kind, idx) when no case seed is given
        c.replay = Some((k, ri, rs));
        c.shard = 0;
        c.nshards = 1;
    }
    let quiet_s: u64 = std::env::var("VH_QUIET_S").ok().and_then(|v| v.parse().ok()).unwrap_or(30);
    let case_to: u64 = std::env::var("VH_CASE_TIMEOUT_S").ok().and_then(|v| v.parse().ok()).unwrap_or(300);
    ctx::spawn_watchdog(quiet_s, if c.replay.is_some() { 3600 } else { case_to });
    if !mon::dispatch(&mut c) {
        eprintln!("unknown property {prop}");
        std::process::exit(2);
    }
    c.finish();
    // rayon's global pool is never joined; leave explicitly
    std::process::exit(0);
}
