// Sink for the cfg(yui_verif) hook events of yui-matrix: step counters (logical clock for the
// bounded-termination claims), an optional event log for the trace monitors and the
// schedule-perturbation policies (sleep / yield / herd) applied at the schedule points.

use std::sync::atomic::{AtomicBool, AtomicU64, AtomicUsize, Ordering};
use std::sync::Mutex;
use std::time::{Duration, Instant};

use yui_matrix::verif::{set_hook, Event};

pub static STEPS_LLL: AtomicU64 = AtomicU64::new(0);
pub static STEPS_HNF: AtomicU64 = AtomicU64::new(0);
pub static STEPS_SNF_ELIM: AtomicU64 = AtomicU64::new(0);
pub static STEPS_SNF_DIAG: AtomicU64 = AtomicU64::new(0);

static STEP_LIMIT: AtomicU64 = AtomicU64::new(u64::MAX);

/// logical-clock watchdog: a library call whose LLL/SNF loops emit more than `limit` step events is
/// interrupted by a panic raised from inside the hook (caught by the monitor, reported as a
/// bounded-termination violation, replayable). Time is never used for this verdict.
pub fn set_step_limit(limit: u64) { STEP_LIMIT.store(limit, Ordering::SeqCst) }
pub const STEP_BOUND_MSG: &str = "VERIF_STEP_BOUND_EXCEEDED";

static RECORD: AtomicBool = AtomicBool::new(false);
static LOG: Mutex<Vec<(Event, u64)>> = Mutex::new(Vec::new()); // event, thread tag
static POLICY: AtomicUsize = AtomicUsize::new(0);
static POLICY_SEED: AtomicU64 = AtomicU64::new(0);
static HERD_WAITING: AtomicUsize = AtomicUsize::new(0);
static HERD_SIZE: AtomicUsize = AtomicUsize::new(2);

#[derive(Clone, Copy, PartialEq, Eq, Debug)]
pub enum Policy { None = 0, SleepBeforeLock = 1, Herd = 2, YieldStorm = 3, SleepColStart = 4 }

pub fn set_policy(p: Policy, seed: u64, herd: usize) {
    POLICY.store(p as usize, Ordering::SeqCst);
    POLICY_SEED.store(seed, Ordering::SeqCst);
    HERD_SIZE.store(herd.max(2), Ordering::SeqCst);
    HERD_WAITING.store(0, Ordering::SeqCst);
}

/// running totals of hook events seen by this process (all monitors): parallel pivot commits (commits with
/// snapshot < index are 'stale'), pivot retries, triangular-solve / Schur columns started, union-find pair visits
pub static N_PIV_COMMIT: AtomicU64 = AtomicU64::new(0);
pub static N_PIV_STALE: AtomicU64 = AtomicU64::new(0);
pub static N_PIV_RETRY: AtomicU64 = AtomicU64::new(0);
pub static N_COL_START: AtomicU64 = AtomicU64::new(0);
pub static N_PAIR_VISIT: AtomicU64 = AtomicU64::new(0);

pub fn hook_totals() -> [u64; 5] {
    [N_PIV_COMMIT.load(Ordering::Relaxed), N_PIV_STALE.load(Ordering::Relaxed), N_PIV_RETRY.load(Ordering::Relaxed), N_COL_START.load(Ordering::Relaxed), N_PAIR_VISIT.load(Ordering::Relaxed)]
}

pub fn reset_steps() {
    for c in [&STEPS_LLL, &STEPS_HNF, &STEPS_SNF_ELIM, &STEPS_SNF_DIAG] { c.store(0, Ordering::SeqCst) }
}

pub fn start_recording() {
    LOG.lock().unwrap_or_else(|e| e.into_inner()).clear();
    RECORD.store(true, Ordering::SeqCst);
}

pub fn stop_recording() -> Vec<(Event, u64)> {
    RECORD.store(false, Ordering::SeqCst);
    std::mem::take(&mut *LOG.lock().unwrap_or_else(|e| e.into_inner()))
}

fn thread_tag() -> u64 {
    thread_local! { static TAG: u64 = { static N: AtomicU64 = AtomicU64::new(1); N.fetch_add(1, Ordering::Relaxed) }; }
    TAG.with(|t| *t)
}

fn cheap_rand(salt: u64) -> u64 {
    // stateless mix of the policy seed, a salt and the thread tag + a per-thread counter
    thread_local! { static CNT: std::cell::Cell<u64> = const { std::cell::Cell::new(0) }; }
    let c = CNT.with(|c| { let v = c.get() + 1; c.set(v); v });
    let mut x = POLICY_SEED.load(Ordering::Relaxed) ^ salt.wrapping_mul(0x9E3779B97F4A7C15) ^ thread_tag().wrapping_mul(0xD1B54A32D192ED03) ^ c.wrapping_mul(0x94D049BB133111EB);
    x ^= x >> 31; x = x.wrapping_mul(0xBF58476D1CE4E5B9); x ^= x >> 29;
    x
}

fn on_event(ev: &Event) {
    match ev {
        Event::Step { site } => {
            match *site {
                "lll" => { STEPS_LLL.fetch_add(1, Ordering::Relaxed); }
                "lll_hnf" => { STEPS_HNF.fetch_add(1, Ordering::Relaxed); }
                "snf_eliminate" => { STEPS_SNF_ELIM.fetch_add(1, Ordering::Relaxed); }
                "snf_diag" => { STEPS_SNF_DIAG.fetch_add(1, Ordering::Relaxed); }
                _ => {}
            }
            let total = STEPS_LLL.load(Ordering::Relaxed) + STEPS_HNF.load(Ordering::Relaxed)
                + STEPS_SNF_ELIM.load(Ordering::Relaxed) + STEPS_SNF_DIAG.load(Ordering::Relaxed);
            if total > STEP_LIMIT.load(Ordering::Relaxed) {
                STEP_LIMIT.store(u64::MAX, Ordering::SeqCst);
                panic!("{}", STEP_BOUND_MSG);
            }
            return
        }
        _ => {}
    }
    match ev {
        Event::PivCommit { snapshot, index, .. } => { N_PIV_COMMIT.fetch_add(1, Ordering::Relaxed); if snapshot < index { N_PIV_STALE.fetch_add(1, Ordering::Relaxed); } }
        Event::PivRetry { .. } => { N_PIV_RETRY.fetch_add(1, Ordering::Relaxed); }
        Event::ColStart { .. } => { N_COL_START.fetch_add(1, Ordering::Relaxed); }
        Event::PairVisit { .. } => { N_PAIR_VISIT.fetch_add(1, Ordering::Relaxed); }
        _ => {}
    }
    if RECORD.load(Ordering::Relaxed) {
        // PivCommit is emitted under the library's write lock, so log order = commit order
        LOG.lock().unwrap_or_else(|e| e.into_inner()).push((ev.clone(), thread_tag()));
    }
    let pol = POLICY.load(Ordering::Relaxed);
    match (pol, ev) {
        (1, Event::PivBeforeLock { row, .. }) => {
            let us = cheap_rand(*row as u64) % 300;
            if us > 0 { std::thread::sleep(Duration::from_micros(us)) }
        }
        (2, Event::PivBeforeLock { .. }) => {
            // herd: wait until `k` workers have arrived (or 2 ms), then all go for the lock together
            let k = HERD_SIZE.load(Ordering::Relaxed);
            let me = HERD_WAITING.fetch_add(1, Ordering::SeqCst) + 1;
            let t0 = Instant::now();
            let gen_target = ((me + k - 1) / k) * k;
            while HERD_WAITING.load(Ordering::SeqCst) < gen_target && t0.elapsed() < Duration::from_millis(2) {
                std::thread::yield_now();
            }
        }
        (3, Event::PivTaskStart { .. }) | (3, Event::PivBeforeLock { .. }) => {
            for _ in 0..(cheap_rand(7) % 20) { std::thread::yield_now() }
        }
        (4, Event::ColStart { col, .. }) => {
            let us = cheap_rand(*col as u64) % 120;
            if us > 0 { std::thread::sleep(Duration::from_micros(us)) }
        }
        (4, Event::PairVisit { i, .. }) => {
            if cheap_rand(*i as u64) % 8 == 0 { std::thread::yield_now() }
        }
        _ => {}
    }
}

pub fn install() {
    set_hook(Some(Box::new(on_event)));
}
