// Diagram workloads: the PD codes and braid words shipped with yui-link (used as INPUTS only),
// random braid words, and isotopy move sequences at braid level and at PD level.

use std::collections::HashMap;
use std::sync::OnceLock;

use yui_link::{Crossing, CrossingType, Link};

use crate::ctx::Rng;
use crate::oracle::link::{braid_closure, PD};

const RES: &str = "/repo/yui-link/resources";

fn crossings_of(name: &str) -> usize {
    let digits: String = name.trim_start_matches(|c| c == 'K' || c == 'L').chars().take_while(|c| c.is_ascii_digit()).collect();
    digits.parse().unwrap_or(99)
}

/// (name, crossing number) of every table diagram, sorted by crossing number then name
pub fn table() -> &'static Vec<(String, usize)> {
    static T: OnceLock<Vec<(String, usize)>> = OnceLock::new();
    T.get_or_init(|| {
        let mut v: Vec<(String, usize)> = std::fs::read_dir(format!("{RES}/links")).map(|rd| rd.flatten().filter_map(|e| {
            let f = e.file_name().to_string_lossy().to_string();
            f.strip_suffix(".json").map(|n| (n.to_string(), crossings_of(n)))
        }).collect()).unwrap_or_default();
        v.sort_by(|a, b| (a.1, &a.0).cmp(&(b.1, &b.0)));
        v
    })
}

pub fn braid_table() -> &'static Vec<String> {
    static T: OnceLock<Vec<String>> = OnceLock::new();
    T.get_or_init(|| {
        let mut v: Vec<String> = std::fs::read_dir(format!("{RES}/braid")).map(|rd| rd.flatten().filter_map(|e| {
            e.file_name().to_string_lossy().strip_suffix(".json").map(|s| s.to_string())
        }).collect()).unwrap_or_default();
        v.sort();
        v
    })
}

pub fn load_pd(name: &str) -> Option<PD> {
    let s = std::fs::read_to_string(format!("{RES}/links/{name}.json")).ok()?;
    let v: Vec<[usize; 4]> = serde_json::from_str(&s).ok()?;
    Some(PD::new(v))
}

pub fn load_braid(name: &str) -> Option<(usize, Vec<i32>)> {
    let s = std::fs::read_to_string(format!("{RES}/braid/{name}.json")).ok()?;
    let w: Vec<i32> = serde_json::from_str(&s).ok()?;
    let n = w.iter().map(|x| x.unsigned_abs() as usize).max().unwrap_or(0) + 1;
    Some((n, w))
}

pub fn to_link(pd: &PD) -> Link {
    // the public PD-code constructor whenever the diagram has no switched crossing (every monitor goes through it)
    if pd.neg.iter().all(|b| !b) { return Link::from_pd_code(pd.x.iter().cloned()) }
    Link::new(pd.x.iter().zip(pd.neg.iter()).map(|(c, &neg)| Crossing::new(if neg { CrossingType::Xm } else { CrossingType::X }, *c)).collect())
}

pub fn to_braid(n: usize, w: &[i32]) -> yui_link::Braid {
    yui_link::Braid::new(n, w.iter().map(|&x| yui_link::Generator::from(x)).collect())
}

/// a table diagram with at most `max` crossings, chosen by the rng; names with >= `min` crossings
pub fn pick_table(rng: &mut Rng, min: usize, max: usize) -> (String, PD) {
    let t = table();
    let cands: Vec<&(String, usize)> = t.iter().filter(|x| x.1 >= min && x.1 <= max).collect();
    let (name, _) = cands[rng.below(cands.len())];
    (name.clone(), load_pd(name).expect("table diagram"))
}

/// random braid word touching every strand, whose closure has no free loop
pub fn random_braid(rng: &mut Rng, max_strands: usize, max_len: usize) -> (usize, Vec<i32>) {
    loop {
        let n = rng.urange(2, max_strands);
        let len = rng.urange(n - 1, max_len.max(n - 1));
        let bias = rng.below(3); // 0: mixed signs, 1: mostly positive, 2: positive
        let w: Vec<i32> = (0..len).map(|_| {
            let i = rng.urange(1, n - 1) as i32;
            let neg = match bias { 0 => rng.chance(1, 2), 1 => rng.chance(1, 5), _ => false };
            if neg { -i } else { i }
        }).collect();
        if (1..n).all(|i| w.iter().any(|x| x.unsigned_abs() as usize == i)) && braid_closure(n, &w).is_ok() { return (n, w) }
    }
}

pub fn torus_braid(p: usize, q: usize) -> (usize, Vec<i32>) {
    let one: Vec<i32> = (1..p as i32).collect();
    (p, (0..q).flat_map(|_| one.clone()).collect())
}

/// apply `k` random closure-preserving braid moves; returns the new word and a log
pub fn braid_moves(rng: &mut Rng, n0: usize, w0: &[i32], k: usize, max_len: usize) -> (usize, Vec<i32>, Vec<String>) {
    let (mut n, mut w) = (n0, w0.to_vec());
    let mut log = vec![];
    let mut done = 0;
    let mut tries = 0;
    while done < k && tries < 50 * k + 50 {
        tries += 1;
        match rng.below(8) {
            0 if w.len() + 2 <= max_len => {
                let i = rng.urange(1, n - 1) as i32;
                let s = if rng.chance(1, 2) { i } else { -i };
                let pos = rng.urange(0, w.len());
                w.insert(pos, s); w.insert(pos + 1, -s);
                log.push(format!("insert s{s} s{} at {pos}", -s)); done += 1;
            }
            1 => {
                if let Some(pos) = (0..w.len().saturating_sub(1)).find(|&p| w[p] == -w[p + 1]) {
                    let rest_ok = { let mut v = w.clone(); v.drain(pos..pos + 2); (1..n).all(|i| v.iter().any(|x| x.unsigned_abs() as usize == i)) && braid_closure(n, &v).is_ok() };
                    if rest_ok { w.drain(pos..pos + 2); log.push(format!("cancel at {pos}")); done += 1 }
                }
            }
            2 | 3 => {
                // braid relation a b a = b a b for |a| adjacent to |b|, same sign; and a b a^-1 = b^-1 a b
                let cands: Vec<usize> = (0..w.len().saturating_sub(2)).filter(|&p| {
                    let (a, b, c) = (w[p], w[p + 1], w[p + 2]);
                    (a.abs() - b.abs()).abs() == 1 && a.abs() == c.abs() && ((a == c && a.signum() == b.signum()) || (a == -c))
                }).collect();
                if !cands.is_empty() {
                    let p = *rng.choose(&cands);
                    let (a, b, c) = (w[p], w[p + 1], w[p + 2]);
                    let (x, y) = (a.abs(), b.abs());
                    let new = if a == c { [b.signum() * y, a.signum() * x, b.signum() * y] }
                        else if b.signum() == a.signum() { // a b a^-1 = b^-1 a b
                            [-(b.signum()) * y, a.signum() * x, b.signum() * y]
                        } else { // a b^-1 a^-1 = b^-1 a^-1 b  (inverse of: b^-1 a b = a b a^-1 with signs)
                            [b.signum() * y, -(a.signum()) * x, a.signum() * y]
                        };
                    w[p] = new[0]; w[p + 1] = new[1]; w[p + 2] = new[2];
                    log.push(format!("braid relation at {p}: [{a},{b},{c}] -> {:?}", new)); done += 1;
                }
            }
            4 => {
                let cands: Vec<usize> = (0..w.len().saturating_sub(1)).filter(|&p| (w[p].abs() - w[p + 1].abs()).abs() >= 2).collect();
                if !cands.is_empty() { let p = *rng.choose(&cands); w.swap(p, p + 1); log.push(format!("far commutation at {p}")); done += 1 }
            }
            5 => { if !w.is_empty() { let r = rng.below(w.len()); w.rotate_left(r); log.push(format!("conjugation (rotate by {r})")); done += 1 } }
            6 if w.len() + 1 <= max_len => {
                let s = if rng.chance(1, 2) { n as i32 } else { -(n as i32) };
                // stabilise at the end, or conjugate first
                w.push(s); n += 1;
                log.push(format!("Markov stabilisation with s{s}")); done += 1;
            }
            7 => {
                // destabilisation: the last letter is the only one on the last strand pair
                if n > 2 && !w.is_empty() && w.last().unwrap().unsigned_abs() as usize == n - 1 && w[..w.len() - 1].iter().all(|x| (x.unsigned_abs() as usize) < n - 1)
                    && (1..n - 1).all(|i| w[..w.len() - 1].iter().any(|x| x.unsigned_abs() as usize == i)) {
                    w.pop(); n -= 1; log.push("Markov destabilisation".into()); done += 1;
                }
            }
            _ => {}
        }
    }
    (n, w, log)
}

/// random relabelling of the edges by arbitrary distinct labels
pub fn random_relabel(rng: &mut Rng, pd: &PD) -> PD {
    let es = pd.edges();
    let off = rng.below(5);
    let mut labels: Vec<usize> = (0..es.len() * 2 + 3).map(|i| i + off).collect();
    rng.shuffle(&mut labels);
    let f: HashMap<usize, usize> = es.iter().enumerate().map(|(i, e)| (*e, labels[i])).collect();
    pd.relabel(&f)
}

/// apply k random isotopy moves at PD level (relabel, permute crossings, reverse all, R1 kinks)
pub fn pd_moves(rng: &mut Rng, pd0: &PD, k: usize, allow_r1: bool, max_crossings: usize) -> (PD, Vec<String>, bool) {
    let mut pd = pd0.clone();
    let mut log = vec![];
    let mut has_r = false;
    for _ in 0..k {
        match rng.below(if allow_r1 { 10 } else { 3 }) {
            0 => { pd = random_relabel(rng, &pd); log.push("relabel edges".into()) }
            1 => { let p = rng.perm(pd.n()); pd = pd.permute_crossings(&p); log.push(format!("permute crossings {:?}", p)) }
            2 => { pd = pd.reverse_all(); log.push("reverse all orientations".into()) }
            8 | 9 => {
                // Reidemeister III on a triangular face
                if pd.n() <= 12 {
                    let fs: Vec<Vec<(usize, usize)>> = pd.faces().into_iter().filter(|f| f.len() == 3).collect();
                    if !fs.is_empty() {
                        let f = rng.choose(&fs).clone();
                        if let Some(p) = pd.r3(&f) { pd = p; has_r = true; log.push(format!("R3 on the triangular face through crossings {:?}", f.iter().map(|d| d.0).collect::<Vec<_>>())) }
                    }
                }
            }
            6 | 7 => {
                // Reidemeister II across a common face (search-based, oracle-validated)
                if pd.n() + 2 <= max_crossings && pd.n() > 0 && pd.n() <= 10 {
                    let es = pd.edges();
                    for _ in 0..6 {
                        let (e, f) = (*rng.choose(&es), *rng.choose(&es));
                        if let Some(p) = pd.r2_search(e, f, rng.below(4)) { pd = p; has_r = true; log.push(format!("R2: strand of edge {e} pushed across edge {f}")); break }
                    }
                }
            }
            _ => {
                if pd.n() < max_crossings && pd.n() > 0 {
                    let es = pd.edges();
                    let e = *rng.choose(&es);
                    let kind = rng.below(4);
                    if let Ok(p) = pd.r1(e, kind) { pd = p; has_r = true; log.push(format!("R1 kink of kind {kind} on edge {e}")) }
                }
            }
        }
    }
    (pd, log, has_r)
}
