// Helpers around the Khovanov API of yui-kh: ring kinds, table extraction, builder configurations.

use std::collections::BTreeMap;

use num_bigint::BigInt;
use num_traits::Signed;
use yui::{EucRing, EucRingOps, Ratio, FF, FF2};
use yui_homology::{GridTrait, SummandTrait};
use yui_kh::kh::internal::v2::builder::TngComplexBuilder;
use yui_kh::kh::{KhComplex, KhComplexBigraded, KhHomology, KhHomologyBigraded};
use yui_link::Link;

use crate::oracle::num::Z;

#[derive(Clone, Copy, PartialEq, Eq, Debug)]
pub enum RingKind { Z, Q, Fp(i64) }

pub trait KhRing: EucRing + Send + Sync where for<'x> &'x Self: EucRingOps<Self> {
    fn rname() -> &'static str;
    fn kind() -> RingKind;
    fn from_i(i: i64) -> Self;
    /// torsion order as a non-negative integer (integer rings only)
    fn tors_z(&self) -> Option<Z>;
}

impl KhRing for i64 { fn rname() -> &'static str { "i64" } fn kind() -> RingKind { RingKind::Z } fn from_i(i: i64) -> Self { i } fn tors_z(&self) -> Option<Z> { Some(Z::from(self.abs())) } }
impl KhRing for i128 { fn rname() -> &'static str { "i128" } fn kind() -> RingKind { RingKind::Z } fn from_i(i: i64) -> Self { i as i128 } fn tors_z(&self) -> Option<Z> { Some(Z::from(self.abs())) } }
impl KhRing for BigInt { fn rname() -> &'static str { "BigInt" } fn kind() -> RingKind { RingKind::Z } fn from_i(i: i64) -> Self { BigInt::from(i) } fn tors_z(&self) -> Option<Z> { Some(self.abs()) } }
impl KhRing for Ratio<i64> { fn rname() -> &'static str { "Ratio<i64>" } fn kind() -> RingKind { RingKind::Q } fn from_i(i: i64) -> Self { Ratio::from(i) } fn tors_z(&self) -> Option<Z> { None } }
impl KhRing for Ratio<BigInt> { fn rname() -> &'static str { "Ratio<BigInt>" } fn kind() -> RingKind { RingKind::Q } fn from_i(i: i64) -> Self { Ratio::from(BigInt::from(i)) } fn tors_z(&self) -> Option<Z> { None } }
impl KhRing for FF2 { fn rname() -> &'static str { "FF2" } fn kind() -> RingKind { RingKind::Fp(2) } fn from_i(i: i64) -> Self { FF2::from(i) } fn tors_z(&self) -> Option<Z> { None } }
impl KhRing for FF<2> { fn rname() -> &'static str { "FF<2>" } fn kind() -> RingKind { RingKind::Fp(2) } fn from_i(i: i64) -> Self { FF::new(i.rem_euclid(2) as i32) } fn tors_z(&self) -> Option<Z> { None } }
impl KhRing for FF<3> { fn rname() -> &'static str { "FF<3>" } fn kind() -> RingKind { RingKind::Fp(3) } fn from_i(i: i64) -> Self { FF::new(i.rem_euclid(3) as i32) } fn tors_z(&self) -> Option<Z> { None } }
impl KhRing for FF<5> { fn rname() -> &'static str { "FF<5>" } fn kind() -> RingKind { RingKind::Fp(5) } fn from_i(i: i64) -> Self { FF::new(i.rem_euclid(5) as i32) } fn tors_z(&self) -> Option<Z> { None } }
impl KhRing for FF<7> { fn rname() -> &'static str { "FF<7>" } fn kind() -> RingKind { RingKind::Fp(7) } fn from_i(i: i64) -> Self { FF::new(i.rem_euclid(7) as i32) } fn tors_z(&self) -> Option<Z> { None } }

/// singly graded result: degree -> (rank, torsion orders sorted; for fields the raw torsion list length must be 0)
pub type Total = BTreeMap<i64, (usize, Vec<String>)>;
/// bigraded result: (i, j) -> (rank, torsion)
pub type Table = BTreeMap<(i64, i64), (usize, Vec<String>)>;

fn tors_strings<R: KhRing>(t: &[R]) -> Vec<String> where for<'x> &'x R: EucRingOps<R> {
    let mut v: Vec<String> = t.iter().map(|x| x.tors_z().map(|z| z.to_string()).unwrap_or_else(|| format!("?{}", x))).collect();
    v.sort_by(|a, b| (a.len(), a).cmp(&(b.len(), b)));
    v
}

pub fn total_of<R: KhRing>(h: &KhHomology<R>) -> Total where for<'x> &'x R: EucRingOps<R> {
    let mut out = Total::new();
    for i in h.support() {
        let s = &h[i];
        if s.rank() > 0 || !s.tors().is_empty() { out.insert(i as i64, (s.rank(), tors_strings(s.tors()))); }
    }
    out
}

pub fn table_of<R: KhRing>(h: &KhHomologyBigraded<R>) -> Table where for<'x> &'x R: EucRingOps<R> {
    let mut out = Table::new();
    for idx in h.support() {
        let s = &h[(idx.0, idx.1)];
        if s.rank() > 0 || !s.tors().is_empty() { out.insert((idx.0 as i64, idx.1 as i64), (s.rank(), tors_strings(s.tors()))); }
    }
    out
}

/// how the complex is built
#[derive(Clone, Debug)]
/// `split = Some(m)`: divide and conquer — the first m crossings (of `order`, or of the diagram) and the remaining
/// ones are turned into two tangle complexes of their own, each carrying the degree shift of its own crossings,
/// glued with the public planar composition `TngComplex::connect`, then finalised through the builder
/// `h_range = Some((k, h0, h1))`: the first k crossings are absorbed, then `set_h_range(h0..=h1)` is called on the
/// partially built complex, then the rest is absorbed; only the degrees strictly between h0 and h1 are comparable
pub struct BuildCfg { pub order: Option<Vec<usize>>, pub auto_deloop: bool, pub auto_elim: bool, pub split: Option<usize>, pub h_range: Option<(usize, isize, isize)> }

impl BuildCfg { pub fn default_cfg() -> Self { BuildCfg { order: None, auto_deloop: true, auto_elim: true, split: None, h_range: None } } }

pub fn build_complex<R: KhRing>(l: &Link, h: &R, t: &R, reduced: bool, cfg: &BuildCfg) -> KhComplex<R> where for<'x> &'x R: EucRingOps<R> {
    if cfg.order.is_none() && cfg.auto_deloop && cfg.auto_elim && cfg.split.is_none() && cfg.h_range.is_none() { return KhComplex::new(l, h, t, reduced) }
    let base_pt = if reduced { l.first_edge() } else { None };
    if let Some(m) = cfg.split {
        let xs = l.data().clone();
        let n = xs.len();
        let mut order: Vec<usize> = cfg.order.clone().unwrap_or_else(|| (0..n).collect());
        let m = m.min(n);
        // the marked edge of the reduced theory must lie in the half that carries the base point
        if let Some(e) = base_pt { if let Some(pos) = order.iter().position(|&k| xs[k].edges().contains(&e)) { let k = order.remove(pos); order.insert(0, k); } }
        let signs = l.crossing_signs();
        let total = KhComplex::<R>::deg_shift_for(l, reduced);
        let right = order[m..].iter().fold((0isize, 0isize), |(a, b), &k| if signs[k] == yui::Sign::Neg { (a - 1, b - 2) } else { (a, b + 1) });
        let left = (total.0 - right.0, total.1 - right.1);
        let mut b1 = TngComplexBuilder::init(h, t, left, base_pt);
        b1.auto_deloop = cfg.auto_deloop; b1.auto_elim = cfg.auto_elim;
        b1.set_crossings(order[..m].iter().map(|&k| xs[k].clone()));
        b1.process_all();
        let mut b2 = TngComplexBuilder::init(h, t, right, None);
        b2.auto_deloop = cfg.auto_deloop; b2.auto_elim = cfg.auto_elim;
        b2.set_crossings(order[m..].iter().map(|&k| xs[k].clone()));
        b2.process_all();
        let mut c = b1.into_tng_complex();
        c.connect(b2.into_tng_complex());
        let mut b = TngComplexBuilder::from(c);
        b.finalize();
        return b.into_kh_complex()
    }
    let mut b = TngComplexBuilder::new(l, h, t, base_pt);
    b.auto_deloop = cfg.auto_deloop;
    b.auto_elim = cfg.auto_elim;
    if let Some((k, h0, h1)) = cfg.h_range {
        let xs = l.data().clone();
        let n = xs.len();
        let order: Vec<usize> = cfg.order.clone().unwrap_or_else(|| (0..n).collect());
        let k = k.min(n);
        b.set_elements(vec![]); // canonical cycles are not carried through a truncation
        b.set_crossings(order[..k].iter().map(|&i| xs[i].clone()));
        b.process_all();
        b.set_crossings(order[k..].iter().map(|&i| xs[i].clone()));
        b.set_h_range(h0..=h1);
        b.process_all();
        b.finalize();
        return b.into_kh_complex()
    }
    if let Some(order) = &cfg.order {
        let xs = l.data().clone();
        b.set_crossings(vec![]);
        for &k in order { b.set_crossings([xs[k].clone()]); b.process_all(); }
    } else {
        b.process_all();
    }
    b.finalize();
    b.into_kh_complex()
}

/// divide-and-conquer build over an arbitrary commutative ring (used for the polynomial-parameter complexes of C05)
pub fn build_complex_split<R>(l: &Link, h: &R, t: &R, reduced: bool, split: Option<usize>) -> KhComplex<R>
where R: yui::Ring, for<'x> &'x R: yui::RingOps<R> {
    let Some(m) = split else { return KhComplex::new(l, h, t, reduced) };
    let base_pt = if reduced { l.first_edge() } else { None };
    let xs = l.data().clone();
    let n = xs.len();
    let mut order: Vec<usize> = (0..n).collect();
    let m = m.min(n);
    if let Some(e) = base_pt { if let Some(pos) = order.iter().position(|&k| xs[k].edges().contains(&e)) { let k = order.remove(pos); order.insert(0, k); } }
    let signs = l.crossing_signs();
    let total = KhComplex::<R>::deg_shift_for(l, reduced);
    let right = order[m..].iter().fold((0isize, 0isize), |(a, b), &k| if signs[k] == yui::Sign::Neg { (a - 1, b - 2) } else { (a, b + 1) });
    let left = (total.0 - right.0, total.1 - right.1);
    let mut b1 = TngComplexBuilder::init(h, t, left, base_pt);
    b1.set_crossings(order[..m].iter().map(|&k| xs[k].clone()));
    b1.process_all();
    let mut b2 = TngComplexBuilder::init(h, t, right, None);
    b2.set_crossings(order[m..].iter().map(|&k| xs[k].clone()));
    b2.process_all();
    let mut c = b1.into_tng_complex();
    c.connect(b2.into_tng_complex());
    let mut b = TngComplexBuilder::from(c);
    b.finalize();
    b.into_kh_complex()
}

pub fn kh_total<R: KhRing>(l: &Link, h: i64, t: i64, reduced: bool, cfg: &BuildCfg) -> Total where for<'x> &'x R: EucRingOps<R> {
    let c = build_complex::<R>(l, &R::from_i(h), &R::from_i(t), reduced, cfg);
    total_of(&KhHomology::from(&c))
}

/// truncations: (KhHomology::truncated(r0..=r1), homology of KhComplex::truncated(r0..=r1), h_range of the complex,
/// every generator's h-degree lies in h_range and its q-degree in q_range)
pub fn kh_truncations<R: KhRing>(l: &Link, h: i64, t: i64, reduced: bool, cfg: &BuildCfg, r0: isize, r1: isize) -> (Total, Total, (isize, isize), bool) where for<'x> &'x R: EucRingOps<R> {
    let c = build_complex::<R>(l, &R::from_i(h), &R::from_i(t), reduced, cfg);
    let hr = c.h_range();
    let qr = c.q_range();
    let mut inside = true;
    for i in c.support() { for x in c[i].raw_gens().iter() { if x.h_deg() != i || !hr.contains(&i) || !qr.contains(&x.q_deg()) { inside = false } } }
    let hom = KhHomology::from(&c);
    let a = total_of(&hom.truncated(r0..=r1));
    let b = total_of(&KhHomology::from(&c.truncated(r0..=r1)));
    (a, b, (*hr.start(), *hr.end()), inside)
}

/// route A: homology of the bigraded pieces of the complex
pub fn kh_table_pieces<R: KhRing>(l: &Link, reduced: bool, cfg: &BuildCfg) -> Table where for<'x> &'x R: EucRingOps<R> {
    let c = build_complex::<R>(l, &R::from_i(0), &R::from_i(0), reduced, cfg);
    let cb: KhComplexBigraded<R> = c.into_bigraded();
    table_of(&cb.homology())
}

/// route C: the table assembled column by column from windows of the complex: column i is read off the homology of
/// the bigraded pieces of `KhComplex::truncated(i-1 ..= i+1)`
pub fn kh_table_windowed<R: KhRing>(l: &Link, reduced: bool) -> Table where for<'x> &'x R: EucRingOps<R> {
    let c = build_complex::<R>(l, &R::from_i(0), &R::from_i(0), reduced, &BuildCfg::default_cfg());
    let hr = c.h_range();
    let mut out = Table::new();
    for i in hr {
        let w = c.truncated(i - 1..=i + 1).into_bigraded();
        let t = table_of(&w.homology());
        for (k, v) in t { if k.0 == i as i64 { out.insert(k, v); } }
    }
    out
}

/// route B: total homology split by the q-degree of each generator
pub fn kh_table_total<R: KhRing>(l: &Link, reduced: bool, cfg: &BuildCfg) -> Table where for<'x> &'x R: EucRingOps<R> {
    let c = build_complex::<R>(l, &R::from_i(0), &R::from_i(0), reduced, cfg);
    table_of(&KhHomology::from(&c).into_bigraded())
}

/// the oracle's integral bigraded table in the same representation
pub fn oracle_table(t: &BTreeMap<(i64, i64), (usize, Vec<Z>)>) -> Table {
    t.iter().map(|(k, (r, ts))| { let mut v: Vec<String> = ts.iter().map(|x| x.to_string()).collect(); v.sort_by(|a, b| (a.len(), a).cmp(&(b.len(), b))); (*k, (*r, v)) }).collect()
}

pub fn oracle_total(h: &[(i64, usize, Vec<Z>)]) -> Total {
    h.iter().filter(|x| x.1 > 0 || !x.2.is_empty()).map(|(i, r, ts)| { let mut v: Vec<String> = ts.iter().map(|x| x.to_string()).collect(); v.sort_by(|a, b| (a.len(), a).cmp(&(b.len(), b))); (*i, (*r, v)) }).collect()
}

/// what a field of kind `k` must report given the integral answer (universal coefficients)
pub fn expected_over(kind: RingKind, zt: &Table) -> BTreeMap<(i64, i64), usize> {
    let mut out: BTreeMap<(i64, i64), usize> = BTreeMap::new();
    for (&(i, j), (r, ts)) in zt {
        match kind {
            RingKind::Z => { if *r > 0 { *out.entry((i, j)).or_insert(0) += r } }
            RingKind::Q => { if *r > 0 { *out.entry((i, j)).or_insert(0) += r } }
            RingKind::Fp(p) => {
                let div = ts.iter().filter(|x| x.parse::<BigInt>().map(|z| (&z % BigInt::from(p)) == BigInt::from(0)).unwrap_or(false)).count();
                if r + div > 0 { *out.entry((i, j)).or_insert(0) += r + div }
                if div > 0 { *out.entry((i - 1, j)).or_insert(0) += div }
            }
        }
    }
    out
}

pub fn ranks_of(t: &Table) -> BTreeMap<(i64, i64), usize> { t.iter().filter(|(_, v)| v.0 > 0).map(|(k, v)| (*k, v.0)).collect() }

pub fn mirror_table(t: &Table) -> Table {
    // free part (i,j) -> (-i,-j); torsion (i,j) -> (1-i,-j)
    let mut out = Table::new();
    for (&(i, j), (r, ts)) in t {
        if *r > 0 { out.entry((-i, -j)).or_insert((0, vec![])).0 += r }
        if !ts.is_empty() { let e = out.entry((1 - i, -j)).or_insert((0, vec![])); e.1.extend(ts.iter().cloned()); e.1.sort_by(|a, b| (a.len(), a).cmp(&(b.len(), b))); }
    }
    out
}

/// JSON form of a bigraded table (tuple keys are not valid JSON object keys)
pub fn tj(t: &Table) -> serde_json::Value {
    serde_json::Value::Object(t.iter().map(|(k, v)| (format!("({},{})", k.0, k.1), serde_json::json!([v.0, v.1]))).collect())
}
